"""C46 -- cythonize rebuilds exactly the modules whose inputs changed.

Three TLA+ modules, all bound to the real code of the working tree (snapshot, pure Python):

A  spec/DepTree.tla       the memoised transitive closure (DependencyTree.transitive_merge_helper):
                          reference Closure vs. a step-by-step transcription with the explicit stack, the
                          shared memo and loop-head selection; TLC: every graph on 3 nodes x every successor
                          order, every graph on 4 nodes x {asc, desc}, ANY number of queries in any order.
                          Binding: TLC-published query histories (result + memo key set after every query)
                          are replayed on the real DependencyTree (edges injected by overriding only
                          cimported_files/included_files) and on real .pxd trees; random larger graphs go
                          through TLC in "file" mode; the complete 4-node sweep is run on the real object
                          against the spec's invariants (result = closure, every memo entry complete).
B  spec/DepTreeBuild.tla  edit / touch / delete-C / foreign-C / cythonize histories with time stamps on a tree
                          of .pyx/.pxd/.pxi files; reference MustRebuild vs. the code-shaped two-branch test.
                          Binding: histories (TLC -simulate from random initial trees) replayed with the real
                          cythonize() in fresh processes on real files with controlled mtimes; compared after
                          every cythonize: set of rewritten C files, all_dependencies() of every module, and
                          the files the compiler really opened (audit hook) for every regenerated module.
C  spec/DepTreeSrc.tla    attribute grammar of source files: real cimport/include statements in several
                          syntactic forms and positions, the same texts hidden in string literals (all
                          prefixes / quote kinds / escapes / f-strings) and comments; package-relative and
                          absolute forms.  Oracles: CPython's tokenizer (lexical claims, every case) and the
                          files the compiler opens (sampled).  Binding: scanner + DependencyTree on every case.
"""
import collections
import concurrent.futures
import json
import os
import random
import sys
import time

import core
import lib_deptree as L

PROP = "C46"
LIB = os.path.join(os.path.dirname(os.path.dirname(os.path.abspath(__file__))), "lib_deptree.py")


# --------------------------------------------------------------------------
# plumbing

_T0 = time.time()


def _log(msg):
    if os.environ.get("C46_VERBOSE"):
        sys.stderr.write("[c46 %6.1fs] %s\n" % (time.time() - _T0, msg))
        sys.stderr.flush()


def _child(cmd, args, tag, timeout=20000, env=None):
    t = time.time()
    ch = core.run_child(LIB, [cmd] + [str(a) for a in args], with_snapshot=True, timeout=timeout, mem_mb=8192, env=env)
    recs = ch.json_lines()
    if ch.rc != 0 or not recs:
        core.die("child %s/%s failed rc=%s\n%s" % (cmd, tag, ch.rc, ch.err[-3000:]))
    _log("child %s/%s %.1fs %s" % (cmd, tag, time.time() - t, recs[-1]))
    return recs[-1]


def _parallel(fn, items, jobs):
    if not items:
        return []
    with concurrent.futures.ThreadPoolExecutor(max_workers=jobs) as ex:
        return list(ex.map(fn, items))


def _chunks(seq, k):
    k = max(1, min(k, len(seq)))
    return [seq[i::k] for i in range(k)]


class TLCJobs(object):
    """run several TLC jobs concurrently (each with a few workers)"""

    def __init__(self, jobs):
        self.ex = concurrent.futures.ThreadPoolExecutor(max_workers=jobs)
        self.f = {}
        self.n = 0

    def tlc(self, name, *a, **k):
        self.n += 1
        delay = 0.15 * self.n

        def run():
            time.sleep(delay)    # core.tlc derives its metadir from the clock
            t = time.time()
            r = core.tlc(*a, **k)
            _log("tlc %s %.1fs gen=%d distinct=%d printed=%d" % (name, time.time() - t, r.generated, r.distinct, len(r.printed)))
            return r
        self.f[name] = self.ex.submit(run)

    def sim(self, name, *a, **k):
        self.n += 1
        delay = 0.15 * self.n

        def run():
            time.sleep(delay)
            t = time.time()
            r = core.tlc_simulate(*a, **k)
            _log("sim %s %.1fs printed=%d" % (name, time.time() - t, len(r.printed)))
            return r
        self.f[name] = self.ex.submit(run)

    def get(self, name, simulate=False):
        r = self.f[name].result()
        if not r.ok:
            sys.stderr.write(r.out[-5000:])
            core.die("TLC job %s failed (%s): %s" % (name, r.violation or r.rc, r.cmd))
        return r


def _need_actions(res_list, actions, what):
    for a in actions:
        if sum(r.coverage.get(a, (0, 0))[1] for r in res_list) == 0:
            core.die("vacuous model (%s): action %s never taken" % (what, a))


# --------------------------------------------------------------------------
# part A

def random_graph(rng, n):
    # expected out-degree 1 .. 2.2: the algorithm re-explores nodes inside open loops, the number of
    # steps explodes with the number of simple paths (dense strongly connected graphs)
    dens = min(0.45, rng.choice([1.0, 1.5, 2.2]) / n)
    succ = []
    for k in range(1, n + 1):
        row = [j for j in range(1, n + 1) if rng.random() < dens]
        rng.shuffle(row)
        succ.append(row)
    return succ


def memo_desc(m, binding):
    c = m["case"]
    return {"part": "memo", "binding": binding, "what": m["what"], "n": c["n"]}


def run_memo_children(cases, tag, jobs):
    wd = core.subdir("c46")
    parts = _chunks(cases, jobs)

    def one(i):
        cf = os.path.join(wd, "%s_%d.ndjson" % (tag, i))
        of = os.path.join(wd, "%s_%d.out" % (tag, i))
        core.write_ndjson(cf, parts[i])
        st = _child("memo", [cf, of], tag)
        return st, core.read_ndjson(of)
    res = _parallel(one, list(range(len(parts))), jobs)
    stats = collections.Counter()
    mism = []
    for st, mm in res:
        stats.update(st)
        mism += mm
    return stats, mism


def part_a(tier, seed, rng, rep, cov, jobs, tj):
    quick = tier == "quick"
    wd = core.subdir("c46")
    # --- random larger graphs: real .pxd trees first (their successor order is whatever the real
    #     cimported_files() produces), then TLC in file mode on exactly those ordered graphs
    sizes = [(6, 30), (10, 20)] if quick else [(5, 200), (8, 200), (12, 100)]
    rgraphs = []
    gid = 1000
    for n, cnt in sizes:
        for _ in range(cnt):
            rgraphs.append({"id": gid, "n": n, "succ": random_graph(rng, n)})
            gid += 1
    # all 3-node edge sets as real trees
    g3 = [{"id": e, "n": 3, "succ": L.graph_of_id(3, e, False)} for e in range(512)]
    gf = os.path.join(wd, "graphs.ndjson")
    of = os.path.join(wd, "orders.out")
    core.write_ndjson(gf, g3 + rgraphs)
    treedir = core.subdir("c46trees")
    henv = {"PYTHONHASHSEED": str(seed % 1000)}
    _child("orders", [gf, of, treedir], "orders", env=henv)
    orders = {r["id"]: r for r in core.read_ndjson(of)}
    for g in g3 + rgraphs:
        o = orders[g["id"]]
        for k in range(g["n"]):
            if sorted(o["succ"][k]) != sorted(set(g["succ"][k])):
                rep.disagree({"part": "memo", "binding": "files", "what": "edges", "n": g["n"]}, "edges",
                             {"graph": g, "observed": o["succ"], "node": k + 1})
    # TLC file mode per size
    by_n = collections.defaultdict(list)
    plans_per_graph = 4
    for g in rgraphs:
        for _ in range(plans_per_graph):
            by_n[g["n"]].append({"succ": orders[g["id"]]["succ"],
                                 "plan": [rng.randint(1, g["n"]) for _ in range(rng.choice([2, 3, 4]))]})
    for n, gs in by_n.items():
        f = os.path.join(wd, "filegraphs_%d.ndjson" % n)
        core.write_ndjson(f, gs)
        tj.tlc("file%d" % n, "DepTree", cfg="DepTree_file", workers=4, env={"DT_N": n, "DT_GRAPHS": f}, timeout=12000)
    # --- exhaustive model checking
    tj.tlc("n3", "DepTree", cfg="DepTree_n3", workers=4, coverage=True, timeout=12000)
    if quick:
        tj.tlc("n4", "DepTree", cfg="DepTree_n4q", workers=6, coverage=True, timeout=12000)
    else:
        tj.tlc("n4", "DepTree", cfg="DepTree_n4", workers=core.NCPU, timeout=30000, heap="12g")
    tj.tlc("n3dump", "DepTree", cfg="DepTree_n3dump", workers=4, timeout=12000)

    def finish():
        n3, n4, dump = tj.get("n3"), tj.get("n4"), tj.get("n3dump")
        _need_actions([n3], ["QueryHit", "QueryMiss", "CallMemo", "CallStack", "CallDescend", "Return"], "DepTree")
        cov["tlc"].append(dict(n3.summary(), config="DepTree: all graphs on 3 nodes x all successor permutations, unbounded queries"))
        cov["tlc"].append(dict(n4.summary(), config="DepTree: all graphs on 4 nodes %s x {asc,desc}, unbounded queries"
                               % ("without self-loops" if quick else "incl. self-loops")))
        cov["tlc"].append(dict(dump.summary(), config="DepTree: dump of all query histories of length 3 on 3 nodes"))
        cases3 = dump.printed
        if len(cases3) != 4096 * 27:
            core.die("3-node dump incomplete: %d" % len(cases3))
        # S vs P on every dumped case: result = closure computed in Python
        filecases = []
        for n in by_n:
            r = tj.get("file%d" % n)
            cov["tlc"].append(dict(r.summary(), config="DepTree file mode: %d (random graph, random query sequence of length 2-4) cases on %d nodes" % (len(by_n[n]), n)))
            if len(r.printed) < len({json.dumps(x) for x in by_n[n]}):
                core.die("file-mode dump too small for n=%d: %d" % (n, len(r.printed)))
            filecases += r.printed
        for c in cases3 + filecases:
            succ = {k + 1: c["succ"][k] for k in range(c["n"])}
            for q in c["qs"]:
                if sorted(L.closure(succ, q["q"])) != q["res"]:
                    rep.spec_drift("DepTree result != closure", c)
                    break
        # replay on the real DependencyTree with injected edges
        sel3 = cases3 if not quick else core.sample(cases3, 24000, rng)
        st1, mm1 = run_memo_children(sel3 + filecases, "memo", jobs)
        for m in mm1:
            rep.disagree(memo_desc(m, "fake"), m["what"], m)
        # replay on real .pxd trees: the case that matches the observed successor order
        table = {}
        for c in cases3:
            table.setdefault(json.dumps(c["succ"]), []).append(c["qs"])
        fcases = []
        for g in g3:
            o = orders[g["id"]]["succ"]
            for qs in table.get(json.dumps(o), []):
                fcases.append({"id": g["id"], "n": 3, "succ": o, "qs": qs})
        if len(fcases) != 512 * 27 and rep.n_violations() == 0:
            core.die("real-tree cases incomplete: %d" % len(fcases))
        order_of = {}
        for g in rgraphs:
            order_of[json.dumps(orders[g["id"]]["succ"])] = g["id"]
        for c in filecases:
            fcases.append({"id": order_of[json.dumps(c["succ"])], "n": c["n"], "succ": c["succ"], "qs": c["qs"]})
        parts = _chunks(fcases, jobs)

        def one(i):
            cf = os.path.join(wd, "files_%d.ndjson" % i)
            o2 = os.path.join(wd, "files_%d.out" % i)
            core.write_ndjson(cf, parts[i])
            return _child("files", [cf, o2, treedir], "files", env=henv), core.read_ndjson(o2)
        st2 = collections.Counter()
        for st, mm in _parallel(one, list(range(len(parts))), jobs):
            st2.update(st)
            for m in mm:
                rep.disagree(memo_desc(m, "files"), m["what"], m)
        # the complete 4-node sweep on the real object (spec invariants as the oracle)
        total = 1 << 16
        if quick:
            lo = rng.randrange(0, total - total // 16)
            ranges = [(lo + i * (total // 16 // jobs), lo + (i + 1) * (total // 16 // jobs)) for i in range(jobs)]
        else:
            ranges = [(i * total // jobs, (i + 1) * total // jobs) for i in range(jobs)]

        def sweep(rg):
            o3 = os.path.join(wd, "sweep_%d.out" % rg[0])
            return _child("sweep", [4, rg[0], rg[1], o3], "sweep"), core.read_ndjson(o3)
        st3 = collections.Counter()
        for st, mm in _parallel(sweep, ranges, jobs):
            st3.update(st)
            for m in mm:
                rep.disagree(memo_desc(m, "sweep"), m["what"], m)
        # binding demonstration: a wrong expectation must be rejected
        bad = []
        for c in sel3:
            if len(c["qs"][0]["res"]) >= 2:
                c2 = json.loads(json.dumps(c))
                c2["qs"][0]["res"] = c2["qs"][0]["res"][:-1]
                bad.append(c2)
                if len(bad) >= 25:
                    break
        _, mb = run_memo_children(bad, "memobad", 1)
        if len(mb) != len(bad):
            core.die("binding self-test (memo) failed: %d corrupted, %d rejected" % (len(bad), len(mb)))
        nontriv = set()
        for c in sel3 + filecases:
            succ = {k + 1: c["succ"][k] for k in range(c["n"])}
            cyc = any(k in L.closure(succ, j) for k in succ for j in succ[k])
            if cyc and len({q["q"] for q in c["qs"]}) >= 2:
                nontriv.add(json.dumps([c["succ"], [q["q"] for q in c["qs"]]]))
        return {
            "memo_cases_fake": int(st1["cases"]), "memo_queries_fake": int(st1["queries"]),
            "memo_cases_realfiles": int(st2["cases"]), "memo_queries_realfiles": int(st2["queries"]),
            "sweep4_cases": int(st3["cases"]), "sweep4_queries": int(st3["queries"]),
            "sweep4_range": "all 65536 edge sets" if not quick else "a random sixteenth (contiguous id range) of the 65536 edge sets",
            "memo_keyset_differs_from_transcription": int(st1["keyset_differs"] + st2["keyset_differs"]),
            "selftest_memo": {"corrupted": len(bad), "rejected": len(mb)},
            "nontrivial": len(nontriv),
            "samples": [{"part": "memo", "succ": c["succ"], "qs": c["qs"]} for c in rng.sample(sel3, 1) + filecases[:1]],
            "states": n3.generated + n4.generated + dump.generated + sum(tj.get("file%d" % n).generated for n in by_n),
            "distinct": n3.distinct + n4.distinct + dump.distinct + sum(tj.get("file%d" % n).distinct for n in by_n),
            "action_coverage": {k: v[1] for k, v in n3.coverage.items() if k[0].isupper() and k != "Init"},
        }
    return finish


# --------------------------------------------------------------------------
# part B

B_MODS, B_PXD, B_PXIS = ["a", "b", "c"], ["a", "b"], ["i", "j"]


def random_tree(rng):
    files = [m + ".pyx" for m in B_MODS] + [m + ".pxd" for m in B_PXD] + [i + ".pxi" for i in B_PXIS]
    dens = rng.choice([0.0, 0.2, 0.4, 0.6])
    cim = {f: [x for x in B_PXD if rng.random() < dens] for f in files}
    inc = {}
    for f in files:
        if f == "j.pxi":
            inc[f] = []
        elif f == "i.pxi":
            inc[f] = ["j.pxi"] if rng.random() < dens else []
        else:
            inc[f] = [i + ".pxi" for i in B_PXIS if rng.random() < dens]
    return {"cim": cim, "inc": inc}


def p_build_expect(h):
    """oracle P for part B: replay the history with plain Python sets"""
    mods, haspxd = h["mods"], set(h["haspxd"])
    cim = {f: set(v) for f, v in h["init"]["cim"].items()}
    inc = {f: set(v) for f, v in h["init"]["inc"].items()}
    mt = {f: 1 for f in cim}
    cst = {m: "none" for m in mods}
    ct = {m: 0 for m in mods}
    out = []
    for st in h["hist"]:
        op = st["op"]
        if op == "touch":
            mt[st["f"]] = st["t"]
        elif op in ("cimport", "uncimport"):
            (cim[st["f"]].add if op == "cimport" else cim[st["f"]].discard)(st["x"])
            mt[st["f"]] = st["t"]
        elif op in ("include", "uninclude"):
            (inc[st["f"]].add if op == "include" else inc[st["f"]].discard)(st["x"])
            mt[st["f"]] = st["t"]
        elif op == "deletec":
            cst[st["f"]] = "none"
        elif op == "foreignc":
            cst[st["f"]] = "foreign"
            ct[st["f"]] = st["t"]
        elif op == "cythonize":
            e = L.file_edges(mods, haspxd, h["pxis"], cim, inc)
            deps = {m: L.closure(e, m + ".pyx") for m in mods}
            regen = sorted(m for m in mods if cst[m] != "ok" or any(mt[d] > ct[m] for d in deps[m]))
            for m in regen:
                cst[m] = "ok"
                ct[m] = st["t"]
            out.append((regen, {m: sorted(deps[m]) for m in mods}))
    return out


def build_desc(m):
    h = m["hist"]
    st = h["hist"][m["step"]] if m.get("step") is not None and m["step"] < len(h["hist"]) else {}
    prev = [s["op"] for s in h["hist"][:m.get("step", 0)]]
    last_edit = next((o for o in reversed(prev) if o != "cythonize"), "none")
    d = {"part": "build", "what": m["what"], "last_edit": last_edit}
    if m["what"] == "regen":
        got, want = set(m["got"]), set(m["want"])
        cls = "+".join(x for x, c in (("not-regenerated", want - got), ("spurious-regeneration", got - want)) if c)
    else:
        cls = m["what"]
    return d, cls


def part_b(tier, seed, rng, rep, cov, jobs, tj):
    quick = tier == "quick"
    wd = core.subdir("c46")
    initf = os.path.join(wd, "db_init.ndjson")
    core.write_ndjson(initf, [random_tree(rng) for _ in range(12 if quick else 60)])
    tj.tlc("bsmall", "DepTreeBuild", cfg="DepTreeBuild_small" if quick else "DepTreeBuild_deep", workers=6 if quick else core.NCPU,
           coverage=True, timeout=12000)
    want = 40 if quick else 640
    # stops as soon as max_records histories are there; `seconds` is only the safety net
    tj.sim("bsim", "DepTreeBuild", "DepTreeBuild_sim", seconds=400 if quick else 1500, depth=14, workers=4,
           env={"DB_INIT": initf}, seed=seed, max_records=want * 2)

    def finish():
        small, sim = tj.get("bsmall"), tj.get("bsim")
        _need_actions([small], ["Touch", "EditCim", "EditInc", "DeleteC", "ForeignC", "Cythonize"], "DepTreeBuild")
        cov["tlc"].append(dict(small.summary(), config="DepTreeBuild exhaustive: 2 modules + 1 include, T=0..2, every history of length <= %d (states identified up to history)" % (3 if quick else 4)))
        cov["tlc"].append(dict(sim.summary(), config="DepTreeBuild -simulate: 3 modules (one without .pxd), 2 includes, T=0..5, length 12, a cythonize every 3rd step, random initial trees"))
        hists = sim.printed
        if len(hists) < 8:      # an overloaded machine gives fewer than `want`; that only reduces the sample
            core.die("simulation produced only %d build histories" % len(hists))
        hists = core.sample(hists, want, rng)
        for k, h in enumerate(hists):
            h["id"] = k
            h["salt"] = seed * 1000 + k
        # S vs P
        for h in hists:
            exp = [(sorted(s["regen"]), {m: sorted(v) for m, v in s["deps"].items()}) for s in h["hist"] if s["op"] == "cythonize"]
            if exp != p_build_expect(h):
                rep.spec_drift("DepTreeBuild expectation != Python replay", h)
        parts = _chunks(hists, jobs)

        def one(i):
            hf = os.path.join(wd, "build_%d.ndjson" % i)
            of = os.path.join(wd, "build_%d.out" % i)
            core.write_ndjson(hf, parts[i])
            return _child("build", [hf, of, core.subdir("c46build%d" % i)], "build"), core.read_ndjson(of)
        st = collections.Counter()
        for s, mm in _parallel(one, list(range(len(parts))), jobs):
            st.update(s)
            for m in mm:
                d, cls = build_desc(m)
                rep.disagree(d, cls, m)
        # binding demonstration
        bad = []
        for h in hists[:40]:
            h2 = json.loads(json.dumps(h))
            for s in h2["hist"]:
                if s["op"] == "cythonize":
                    s["regen"] = [m for m in h2["mods"] if m not in s["regen"]] if len(s["regen"]) != len(h2["mods"]) else s["regen"][:-1]
                    break
            h2["id"] = 100000 + len(bad)
            bad.append(h2)
            if len(bad) >= 6:
                break
        hf = os.path.join(wd, "build_bad.ndjson")
        of = os.path.join(wd, "build_bad.out")
        core.write_ndjson(hf, bad)
        _child("build", [hf, of, core.subdir("c46buildbad")], "buildbad")
        nrej = len(core.read_ndjson(of))
        if nrej != len(bad):
            core.die("binding self-test (build) failed: %d corrupted, %d rejected" % (len(bad), nrej))
        nontriv = set()
        for h in hists:
            regs = [tuple(sorted(s["regen"])) for s in h["hist"] if s["op"] == "cythonize"]
            if any(0 < len(r) < len(h["mods"]) for r in regs[1:]):
                nontriv.add(json.dumps(h["hist"]))
        return {
            "build_histories": int(st["histories"]), "cythonize_steps": int(st["cythonize_steps"]),
            "selftest_build": {"corrupted": len(bad), "rejected": nrej},
            "nontrivial": len(nontriv),
            "samples": [{"part": "build", "init": h["init"], "hist": [{k: s[k] for k in ("op", "f", "x", "t", "regen")} for s in h["hist"]]}
                        for h in hists[:1]],
            "states": small.generated + sim.generated, "distinct": small.distinct,
            "action_coverage": {k: v[1] for k, v in small.coverage.items() if k[0].isupper() and k != "Init"},
        }
    return finish


# --------------------------------------------------------------------------
# part C

def src_report(rep, c, r):
    """compare the scanner/DependencyTree result of one case with the spec's expectation"""
    exp = L.src_expected(c)
    base = {"part": "src", "loc": c["loc"]}
    if "deps_error" in r:
        rep.disagree(dict(base, what="exception"), "scanner-exception", {"case": c, "got": r["deps_error"]})
        return 1
    got = set(r["deps"])
    if got == exp:
        return 0
    for f in sorted(exp - got):
        for rr in c["reals"]:
            if f in L.resolve(rr["form"], c["loc"]):
                rep.disagree(dict(base, form=rr["form"], ctx=rr["ctx"], target=f), "scanner-missed",
                             {"text": c["text"], "toks": c["toks"], "expected": sorted(exp), "got": sorted(got), "scan": r.get("scan")})
    relfirst = set()
    for rr in c["reals"]:
        if c["loc"] == "pkg" and rr["form"] in ("cim_c", "from_c"):
            relfirst.add("p/c.pxd")
    for f in sorted(got - exp):
        rep.disagree(dict(base, extra=f, in_relfirst=f in relfirst, decoys=c["nd"] > 0), "scanner-extra",
                     {"text": c["text"], "toks": c["toks"], "expected": sorted(exp), "got": sorted(got), "scan": r.get("scan")})
    return 1


SRC_ACTIONS = ["Stmt", "Assign", "Continue", "Open", "Hash", "EndLine", "Semi", "StrText", "StrChar",
               "Close", "Adjacent", "CmtText", "CmtChar"]


def part_c(tier, seed, rng, rep, cov, jobs, tj):
    quick = tier == "quick"
    wd = core.subdir("c46")
    tj.tlc("forms", "DepTreeSrc", cfg="DepTreeSrc_forms", workers=4, coverage=True, timeout=12000)
    tj.tlc("lex", "DepTreeSrc", cfg="DepTreeSrc_lex5" if quick else "DepTreeSrc_lex", workers=6 if quick else core.NCPU, coverage=True, timeout=12000)
    tj.sim("ssim", "DepTreeSrc", "DepTreeSrc_sim", seconds=400 if quick else 1500, depth=45, workers=4, seed=seed,
           max_records=600 if quick else 6000)

    def finish():
        forms, lex, sim = tj.get("forms"), tj.get("lex"), tj.get("ssim")
        _need_actions([forms, lex], SRC_ACTIONS, "DepTreeSrc")
        cov["tlc"].append(dict(forms.summary(), config="DepTreeSrc forms: all 13 statement forms, both locations, <= 6 atoms, statements only"))
        cov["tlc"].append(dict(lex.summary(), config="DepTreeSrc lex: prefixes {'',r,f,b}, 2 real + 2 decoy forms, all programs of <= %d atoms" % (5 if quick else 6)))
        cov["tlc"].append(dict(sim.summary(), config="DepTreeSrc -simulate: all forms / prefixes / locations, programs of ~30 atoms"))
        if len(sim.printed) < 20:
            core.die("simulation produced only %d programs" % len(sim.printed))
        cases = []
        seen = set()
        for src, lst in (("forms", forms.printed), ("lex", lex.printed), ("sim", sim.printed)):
            for c in lst:
                key = (c["loc"], tuple(c["toks"]))
                if key in seen:
                    continue
                seen.add(key)
                c["src"] = src
                c["id"] = len(cases)
                c["text"] = L.render_source(c["toks"])
                cases.append(c)
        # oracle P (lexical): CPython's tokenizer agrees with the grammar about the real statements
        for c in cases:
            try:
                p = L.tokenize_statements(c["text"])
            except Exception as ex:
                rep.spec_drift("generated program rejected by tokenize: %s" % ex, {"toks": c["toks"], "text": c["text"]})
                continue
            if p != L.spec_statements(c["reals"]):
                rep.spec_drift("real statements: tokenize != grammar", {"toks": c["toks"], "text": c["text"], "tokenize": p})
        ncomp = 160 if quick else 3000
        by_src = collections.defaultdict(list)
        for c in cases:
            by_src[c["src"]].append(c)
        comp = set()
        for src, lst in by_src.items():
            for c in core.sample(lst, ncomp // 3 + 1, rng):
                comp.add(c["id"])
        for c in cases:
            c["compile"] = c["id"] in comp
        parts = _chunks(cases, jobs)

        def one(i):
            cf = os.path.join(wd, "src_%d.ndjson" % i)
            of = os.path.join(wd, "src_%d.out" % i)
            core.write_ndjson(cf, [{k: c[k] for k in ("id", "loc", "text", "compile")} for c in parts[i]])
            return _child("scan", [cf, of, core.subdir("c46src%d" % i)], "scan"), core.read_ndjson(of)
        outs = {}
        st = collections.Counter()
        for s, rs in _parallel(one, list(range(len(parts))), jobs):
            st.update(s)
            for r in rs:
                outs[r["id"]] = r
        nbad = 0
        for c in cases:
            r = outs.get(c["id"])
            if r is None:
                core.die("scan child lost case %d" % c["id"])
            nbad += src_report(rep, c, r)
            if "reads" in r:
                # oracle P (resolution): the compiler itself
                if r["errors"]:
                    rep.spec_drift("generated program does not compile", {"text": c["text"], "messages": r.get("messages")})
                elif set(r["reads"]) != L.src_expected(c):
                    rep.spec_drift("files opened by the compiler != Resolve() of the spec",
                                   {"text": c["text"], "loc": c["loc"], "reads": r["reads"], "expected": sorted(L.src_expected(c))})
        # binding demonstration: an expectation with an additional real statement must be rejected
        probe = core.Reporter(PROP)
        nb = 0
        for c in cases:
            if "b.pxd" not in L.src_expected(c) and "b.pxd" not in outs[c["id"]].get("deps", ["b.pxd"]):
                c2 = dict(c, reals=c["reals"] + [{"form": "cim_b", "ctx": "bol"}])
                nb += 1
                if src_report(probe, c2, outs[c["id"]]) != 1:
                    core.die("binding self-test (src) failed on %r" % c["text"])
                if nb >= 25:
                    break
        nontriv = sum(1 for c in cases if c["reals"] and c["nd"] > 0)
        return {
            "src_cases": len(cases), "src_compiled": int(st["compiled"]), "src_cases_with_scanner_mismatch": nbad,
            "selftest_src": {"corrupted": nb, "rejected": nb},
            "nontrivial": nontriv,
            "samples": [{"part": "src", "loc": c["loc"], "text": c["text"], "reals": c["reals"]}
                        for c in core.sample([c for c in cases if c["reals"] and c["nd"] > 0 and c["src"] == "sim"], 1, rng)],
            "states": forms.generated + lex.generated + sim.generated, "distinct": forms.distinct + lex.distinct,
            "action_coverage": {k: forms.coverage.get(k, (0, 0))[1] + lex.coverage.get(k, (0, 0))[1] for k in SRC_ACTIONS},
        }
    return finish


# --------------------------------------------------------------------------

def run(tier, seed):
    t0 = time.time()
    rng = random.Random(seed)
    rep = core.Reporter(PROP)
    cov = {"tlc": []}
    jobs = 8
    tj = TLCJobs(5 if tier == "quick" else 3)
    # the long simulations first, then the model-checking runs; bindings as the results arrive
    parts = os.environ.get("C46_PARTS", "abc")     # debugging aid: run only some parts (exit code 2 then)
    empty = lambda: {"nontrivial": 0, "samples": [], "states": 0, "distinct": 0}  # noqa
    fb = part_b(tier, seed, random.Random(seed * 3 + 2), rep, cov, jobs, tj) if "b" in parts else empty
    fc = part_c(tier, seed, random.Random(seed * 3 + 3), rep, cov, jobs, tj) if "c" in parts else empty
    fa = part_a(tier, seed, random.Random(seed * 3 + 1), rep, cov, jobs, tj) if "a" in parts else empty
    b = fb()
    _log("part B done")
    c = fc()
    _log("part C done")
    a = fa()
    _log("part A done")
    if parts != "abc":
        rc = rep.finish()
        print("partial run (%s): rc would be %d" % (parts, rc))
        core.die("partial run requested through C46_PARTS")
    n_eval = a["memo_cases_fake"] + a["memo_cases_realfiles"] + a["sweep4_cases"] + b["build_histories"] + c["src_cases"]
    cov.update({
        "states": a["states"] + b["states"] + c["states"],
        "distinct_states": a["distinct"] + b["distinct"] + c["distinct"],
        "transitions": a["states"] + b["states"] + c["states"],
        "traces_validated_against_impl": a["memo_cases_fake"] + a["memo_cases_realfiles"] + b["build_histories"] + c["src_cases"],
        "evaluations": n_eval,
        "distinct_nontrivial": a["nontrivial"] + b["nontrivial"] + c["nontrivial"],
        "exhaustive": tier == "thorough",   # quick samples the replay of the exhaustive dumps and the 4-node sweep
        "rule": "A: query histories published by TLC (every graph on 3 nodes x every successor permutation x every query "
                "sequence of length 3; random 5-12 node graphs x random query sequences) replayed on the real DependencyTree "
                "(injected edges and real .pxd trees), plus the 4-node sweep on the real object; non-trivial = graph has a cycle "
                "and the history queries >= 2 different nodes.  B: TLC-simulated edit/touch/cythonize histories replayed with the real "
                "cythonize() in fresh processes; non-trivial = some later cythonize regenerates a proper non-empty subset of the modules.  "
                "C: programs of the source grammar (exhaustive to the atom bound + simulated long ones); non-trivial = has a real "
                "statement and at least one decoy in a literal/comment.  Counts are of distinct cases.",
        "partA": {k: v for k, v in a.items() if k not in ("samples", "states", "distinct")},
        "partB": {k: v for k, v in b.items() if k not in ("samples", "states", "distinct")},
        "partC": {k: v for k, v in c.items() if k not in ("samples", "states", "distinct")},
        "samples": a["samples"] + b["samples"] + c["samples"],
    })
    if a["memo_keyset_differs_from_transcription"]:
        print("NOTE: the real memo caches a different key set than the transcription in %d queries "
              "(values are complete; reported, not a verdict)" % a["memo_keyset_differs_from_transcription"])
    rc = rep.finish()
    cov["known_findings"] = rep.kf_summary()
    core.write_evidence(PROP, tier, seed, "model_checking", cov, time.time() - t0, assumptions=[
        "every cythonize() runs in a fresh process (the memo tables of Cython.Build.Dependencies are per process; a second "
        "cythonize() in the same process after an edit sees stale time stamps and parse results -- not modelled)",
        "include cycles are outside the domain (textual inclusion); cimport cycles are inside",
        "flat directory for the build histories; packages only in part C (one package, one level)",
        "the forked worker of the history replay inherits imported modules and warmed-up Cython.Compiler caches, never "
        "anything of Cython.Build.Dependencies (asserted)",
        "part C compiles only a sample of the generated programs (the tokenizer oracle covers all)",
        "file system time stamps have at least 1 s resolution steps of 1000 s between logical times",
    ], violations=rep.n_violations())
    return rc


def replay(path, seed):
    """re-run the cases of one replay file"""
    with open(path) as f:
        rec = json.load(f)
    part = rec["descriptor"].get("part")
    rep = core.Reporter(PROP)
    wd = core.subdir("c46")
    if part == "memo":
        cases = [c["case"] for c in rec["cases"] if "case" in c]
        cases = [c if isinstance(c["qs"][0], dict) else
                 dict(c, qs=[{"q": q, "res": sorted(L.closure({k + 1: c["succ"][k] for k in range(c["n"])}, q)), "keys": []} for q in c["qs"]])
                 for c in cases]
        _, mm = run_memo_children(cases, "replay", 1)
        for m in mm:
            rep.disagree(memo_desc(m, rec["descriptor"].get("binding", "fake")), m["what"], m)
    elif part == "build":
        hists = [c["hist"] for c in rec["cases"]]
        hf, of = os.path.join(wd, "rb.ndjson"), os.path.join(wd, "rb.out")
        core.write_ndjson(hf, hists)
        _child("build", [hf, of, core.subdir("c46rb")], "replay")
        for m in core.read_ndjson(of):
            d, cls = build_desc(m)
            rep.disagree(d, cls, m)
    elif part == "src":
        cases = []
        for k, c in enumerate(rec["cases"]):
            toks = c["toks"]
            cases.append({"id": k, "loc": rec["descriptor"]["loc"], "toks": toks, "text": L.render_source(toks), "compile": True})
        cf, of = os.path.join(wd, "rs.ndjson"), os.path.join(wd, "rs.out")
        core.write_ndjson(cf, cases)
        _child("scan", [cf, of, core.subdir("c46rs")], "replay")
        for r in core.read_ndjson(of):
            print(json.dumps({"text": cases[r["id"]]["text"], "deps": r.get("deps"), "compiler_reads": r.get("reads")}))
        return 0
    return rep.finish()
