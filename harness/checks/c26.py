"""C26 — global and builtin name reads in compiled code always see the current binding.

spec/GlobalCache.tla: reference lookup (module dict, then builtins, else NameError) and the
implementation-shaped per-site <<dict version, cached value>> cache of __Pyx_GetModuleGlobalName;
TLC checks ReadsCurrent / CacheCoherent on all histories of mutations (module setattr, module
dict, compiled `global` assignment/deletion, builtins module) of length <= MaxLen and publishes
them with the expected reads.  B1: every history is replayed on the compiled module, reading
through two sites per name after every mutation; built in four configurations
{default, -DCYTHON_USE_DICT_VERSIONS=1 (the cache is compiled out on 3.12 otherwise)} x
{cache_builtins on, off}.  P = the same source executed by CPython (spec drift guard).
"""
import json
import os
import random
import sys
import time

import core

PROP = "C26"

SRC = '''
ga = 1
def r1_ga(): return ga
def r2_ga(): return ga
def r1_gb(): return gb
def r2_gb(): return gb
def r1_hex(): return hex
def r2_hex(): return hex
def set_ga(v):
    global ga
    ga = v
def del_ga():
    global ga
    del ga
'''

_CHILD = r'''
import json, sys, os, builtins, importlib, types
mode, moddir, modname, histfile, outfile = sys.argv[1:6]
REAL_HEX = builtins.hex
if mode == "compiled":
    sys.path.insert(0, moddir)
    mod = importlib.import_module(modname)
    assert mod.__file__.endswith(".so"), mod.__file__
else:
    mod = types.ModuleType(modname)
    exec(compile(open(os.path.join(moddir, modname + "_src.py")).read(), modname, "exec"), mod.__dict__)

def val(v):
    return v
def obs(f):
    try:
        r = f()
    except NameError:
        return 100
    except BaseException as e:
        return "E:" + type(e).__name__
    if r is REAL_HEX: return 9
    return r if isinstance(r, int) else "O:" + repr(r)[:40]

def reset():
    d = mod.__dict__
    d["ga"] = 1
    d.pop("gb", None); d.pop("hex", None)
    builtins.hex = REAL_HEX
    if hasattr(builtins, "gb"): del builtins.gb

def apply(st):
    op, n, v, how = st["op"], st["n"], st["v"], st["how"]
    if op == "setg":
        if how == "setattr": setattr(mod, n, v)
        elif how == "dict": mod.__dict__[n] = v
        else: mod.set_ga(v)
    elif op == "delg":
        if how == "setattr": delattr(mod, n)
        elif how == "dict": del mod.__dict__[n]
        else: mod.del_ga()
    elif op == "setb": setattr(builtins, n, v)
    elif op == "delb": delattr(builtins, n)

bad = []
n = 0
with open(histfile) as f:
    for line in f:
        hist = json.loads(line)
        n += 1
        reset()
        for k, st in enumerate(hist):
            if st["op"] == "delg_absent":
                try:
                    mod.del_ga()
                    got = "no-exception"
                except BaseException as e:
                    got = type(e).__name__
                if got != "NameError":
                    bad.append({"hist": n - 1, "step": k, "what": "del-absent", "name": "ga", "got": got, "want": "NameError"})
            try:
                if st["op"] != "delg_absent":
                    apply(st)
            except BaseException as e:
                bad.append({"hist": n - 1, "step": k, "what": "mutation-raised", "got": type(e).__name__})
                break
            sites = (1, 2) if st["r"] == "all" else (1,)
            stop = False
            for name, want in st["exp"].items():
                for s in sites:
                    got = obs(getattr(mod, "r%d_%s" % (s, name)))
                    if got != want:
                        bad.append({"hist": n - 1, "step": k, "what": "read", "name": name, "site": s, "got": got, "want": want})
                        stop = True     # a wrong read does not disturb the state: keep going
reset()
json.dump({"n": n, "bad": bad}, open(outfile, "w"))
'''

CONFIGS = [
    ("default_cb1", [], True), ("default_cb0", [], False),
    ("dictver_cb1", ["-DCYTHON_USE_DICT_VERSIONS=1"], True), ("dictver_cb0", ["-DCYTHON_USE_DICT_VERSIONS=1"], False),
]


def fold(hist, upto):
    """spec-side state after steps 0..upto (module dict / builtins entries; 0 = absent, 9 = the real builtin)"""
    mod = {"ga": 1, "gb": 0, "hex": 0}
    bl = {"ga": 0, "gb": 0, "hex": 9}
    for st in hist[: upto + 1]:
        if st["op"] == "setg":
            mod[st["n"]] = st["v"]
        elif st["op"] == "delg":
            mod[st["n"]] = 0
        elif st["op"] == "setb":
            bl[st["n"]] = st["v"]
        elif st["op"] == "delb":
            bl[st["n"]] = 0
    return mod, bl


def classify(hist, b):
    """descriptor from the spec-side state at the misread: is the name bound in the module dict, was builtins changed"""
    name = b.get("name")
    mod, bl = fold(hist, b["step"])
    return {"name": name, "in_module_dict": mod[name] != 0,
            # does the wrong observation equal what a lookup that IGNORES the module dict would give?
            "got_is_builtins_entry": b.get("got") == (100 if bl[name] == 0 else bl[name]),
            "builtins_entry": "original" if bl[name] == (9 if name == "hex" else 0) else ("deleted" if bl[name] == 0 else "replaced")}


def run(tier, seed):
    t0 = time.time()
    rng = random.Random(seed)
    rep = core.Reporter(PROP)
    cov = {"tlc": []}
    t = core.tlc_or_die("GlobalCache", cfg="GlobalCache_L3", coverage=True, timeout=1500)
    for act in ("DoSetG", "DoDelG", "DoSetB", "DoDelB"):
        if t.coverage.get(act, (0, 0))[1] == 0:
            core.die("vacuous model: %s never taken" % act)
    cov["tlc"].append(dict(t.summary(), config="MaxLen=3, all histories published"))
    hists = t.printed
    if len(hists) < 50000:
        core.die("only %d histories published" % len(hists))
    sim = core.tlc_simulate("GlobalCache", "GlobalCache_sim", seconds=240 if tier == "quick" else 900, depth=13, seed=seed,
                            max_records=1500 if tier == "quick" else 40000, workers=4)
    if not sim.ok:
        sys.stderr.write(sim.out[-2000:])
        core.die("simulation: %s" % sim.violation)
    allh = hists + sim.printed
    if tier == "quick":
        # all of them are cheap to replay (pure attribute reads); keep everything
        pass
    wd = core.subdir("c26")
    hf = os.path.join(wd, "hists.ndjson")
    core.write_ndjson(hf, allh)
    specs = [core.BuildSpec("c26_" + name, SRC, kind="pyx", cflags=cf,
                            options={"global_options": {"error_on_unknown_names": False, "cache_builtins": cb}})
             for name, cf, cb in CONFIGS]
    builds = core.build_many(specs)
    # P: plain CPython on the same source
    pdir = os.path.join(wd, "py")
    os.makedirs(pdir, exist_ok=True)
    with open(os.path.join(pdir, "pmod_src.py"), "w") as f:
        f.write(SRC)
    pout = os.path.join(wd, "p.json")
    ch = core.run_child(_CHILD, ["python", pdir, "pmod", hf, pout], timeout=900)
    if ch.rc != 0:
        core.die("P run failed: %s" % ch.err[-1500:])
    pres = json.load(open(pout))
    for b in pres["bad"][:5]:
        rep.spec_drift("GlobalCache vs CPython", {"hist": allh[b["hist"]], "bad": b})
    nrep = 0
    permitted = 0
    per_cfg = {}
    for (name, cf, cb), b in zip(CONFIGS, builds):
        if not b.ok:
            rep.disagree({"config": name, "name": "build"}, "build-failed", {"errors": b.errors[-2000:]})
            continue
        out = os.path.join(wd, name + ".json")
        ch = core.run_child(_CHILD, ["compiled", os.path.dirname(b.so), b.name, hf, out], timeout=900)
        if ch.rc != 0 or not os.path.exists(out):
            rep.disagree({"config": name, "name": "run"}, "crash" if ch.crashed else "error", {"rc": ch.rc, "stderr": ch.err[-1500:]})
            continue
        res = json.load(open(out))
        nrep += res["n"]
        per_cfg[name] = len(res["bad"])
        for bd in res["bad"]:
            h = allh[bd["hist"]]
            if bd["what"] == "mutation-raised":
                st = h[bd["step"]]
                desc = {"config_dictver": "dictver" in name, "cache_builtins": cb, "name": st["n"], "last_change_op": st["op"],
                        "last_change_how": st["how"], "kind": "mutation-raised:" + bd["got"]}
                rep.disagree(desc, "exception", {"history": h, "bad": bd, "config": name})
                continue
            if bd["what"] == "del-absent":
                rep.disagree({"config_dictver": "dictver" in name, "cache_builtins": cb, "name": "ga", "kind": "del-absent-global"},
                             "raises-" + bd["got"], {"history": h, "bad": bd, "config": name})
                continue
            desc = classify(h, bd)
            if cb and desc["name"] == "hex" and not desc["in_module_dict"] and desc["builtins_entry"] != "original":
                # documented: with cache_builtins on, changes to the builtins module after import need not be seen
                permitted += 1
                continue
            desc.update({"config_dictver": "dictver" in name, "cache_builtins": cb, "kind": "read"})
            oc = "sees-builtin-instead" if bd["got"] == 9 else ("NameError" if bd["got"] == 100 else "stale-or-wrong-value")
            rep.disagree(desc, oc, {"history": h, "bad": bd, "config": name})
    nontriv = sum(1 for h in allh if len({(s["op"], s["n"]) for s in h}) > 1)
    cov.update({
        "states": t.generated, "distinct_states": t.distinct, "transitions": t.generated,
        "traces_validated_against_impl": nrep, "evaluations": nrep, "distinct_nontrivial": nontriv,
        "exhaustive": True, "simulated_behaviours": len(sim.printed), "disagreements_per_config": per_cfg, "permitted_cache_builtins_deviations": permitted,
        "action_coverage": {k: v[1] for k, v in t.coverage.items() if k.startswith("Do")},
        "rule": "all histories of <= 3 mutations over {set/del module global by setattr, module dict, compiled global statement; set/del "
                "builtins attribute} x names {ga: assigned in module, gb: unknown at compile time, hex: builtin never assigned} x values "
                "{1,2} x readers {all sites, site 1 only}, + simulated histories of length 12; each replayed in 4 build configurations; "
                "non-trivial = at least two different (operation, name) pairs",
        "samples": [h for h in rng.sample(hists, 2)] + sim.printed[:1],
    })
    rc = rep.finish()
    cov["known_findings"] = rep.kf_summary()
    core.write_evidence(PROP, tier, seed, "model_checking", cov, time.time() - t0,
                        assumptions=["CPython bumps the module dict's version tag on insert, replace by a different object and delete (modelled), "
                                     "not on storing the identical object",
                                     "the dict-version cache is compiled out on Python 3.12 by default; it is exercised by forcing "
                                     "-DCYTHON_USE_DICT_VERSIONS=1"],
                        violations=rep.n_violations())
    return rc
