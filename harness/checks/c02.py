"""C02 - object arithmetic with constant operands matches CPython.

spec/PyLongArith.tla: reference semantics of  x op c / c op x  (ints, bools, floats on a scaled
IEEE model with signed zeros, inf, nan, half-even rounding) and an implementation-shaped
transcription of the helper families of Utility/Optimize.c (PyLongBinop, PyLongCompare,
PyFloatBinop, PyNumberBinop, PyObjectCompare) together with the selection rule of Optimize.py.  TLC decides, for
every site x every operand of the scaled instance: FastPath = Reference or delegated to the
generic protocol, no C undefined behaviour - except on the declared hazard paths, whose cells it
publishes.
Float constants of the sites: a base set plus the boundary family BndFloatConsts (integral doubles around
2^SHIFT, 2^(2 SHIFT), 2^MANT, 2^(MANT+1), 2^(LONG-1), both signs; real: 2^30-1..2^30+2, 2^53-1, 2^53, 2^53+2, 2^54,
2^60, 2^63); the case class RoundCollision (int != constant, (double) int == constant; invariant ExactCompare) must be
inhabited in the model and in the real replay for every comparison operator x order x sign.
Binding: (1) the Python mirror (lib_pylong) is validated cell by cell against the TLC rows and
then evaluated at the real parameters (SHIFT=30, 64-bit long, 53-bit mantissa);
(2) B3: for every compiled site the helper the real compiler selected is read from the generated
C and compared with the spec's selection rule;
(3) B1: one compiled function per site, called on digit-boundary ints, floats (signed zeros, inf,
nan), bools, int/float subclasses and other objects; S = mirror, P = CPython, C = compiled code;
floats are compared exactly (sign of zero included), result type and exception type are observed.
"""
import concurrent.futures
import json
import os
import random
import sys
import time

import calls
import core
import lib_pylong as L

PROP = "C02"


def xclass(v):
    if type(v) is bool:
        return "bool"
    if type(v) is int:
        return "zero" if v == 0 else ("neg" if v < 0 else "pos")
    if type(v) is float:
        import math
        if v != v:
            return "nan"
        if v in (math.inf, -math.inf):
            return "inf"
        if v == 0:
            return "-0.0" if math.copysign(1, v) < 0 else "0.0"
        return "neg" if v < 0 else "pos"
    return type(v).__name__


def obs_class(want, got):
    if got.startswith("o:") and ("CRASH" in got or "TIMEOUT" in got):
        return "crash"
    if got.startswith("e:"):
        return "exception:" + got[2:] if not want.startswith("e:") else "wrong-exception:" + got[2:]
    if want.startswith("e:"):
        return "no-exception"
    if want[:2] != got[:2]:
        return "wrong-type"
    if want.startswith("f:fin") and got.startswith("f:fin") and want.split(":")[3:] == got.split(":")[3:] == ["0", "0"]:
        return "wrong-zero-sign"
    return "wrong-value"


def build_operands(tier, rng):
    """-> list of (argument encoding, python value, seq_flag)"""
    ns = {}
    exec(L.PRELUDE, ns)
    ops = []
    for v in L.int_grid(rng, tier):
        ops.append((calls.ienc(v), v, False))
    for f in L.FLOATS:
        ops.append((calls.fenc(f), f, False))
    ops.append((True, True, False))
    ops.append((False, False, False))
    for expr, seq in L.OTHER:
        ops.append(({"py": expr}, ("py", expr), seq))
    return ops, ns


def admissible(site, val, seq):
    if site["shape"] == "pyint":
        return type(val) in (int, bool)  # y = int(x): keep to operands int() accepts without rounding
    if seq and site["op"] == "Multiply" and site["ckind"] == "int" and abs(site["cv"][1]) > 1000:
        return False                     # sequence repetition: size cap
    return True


def replay_real(tier, rng, rep, cov, sites=None, nmod=None, prefix="c02m", cflags=(), config="default"):
    P = L.REAL
    sites = sites if sites is not None else L.real_sites(tier)
    nmod = nmod or (4 if tier == "quick" else 8)
    mods = L.gen_modules(sites, nmod, prefix)
    builds = core.build_many([core.BuildSpec(n, src, kind="py", cflags=list(cflags)) for n, src in mods], jobs=min(nmod, 8))
    bymod = {b.name: b for b in builds}
    for b in builds:
        if not b.ok:
            rep.disagree({"shape": "build", "module": b.name, "config": config}, "build-failed", {"errors": b.errors[-2500:]})
    # B3: which helper did the real compiler select?
    sel = {"agree": 0, "generic-where-fast-expected": [], "n": 0}
    for b in builds:
        if not b.ok:
            continue
        with open(b.c_file) as f:
            hs = L.helpers_in_c(f.read(), b.name)
        for s in sites:
            if s["mod"] != b.name:
                continue
            fams = L.helper_family(hs.get(s["fn"], []))
            s["helpers"] = hs.get(s["fn"], [])
            sel["n"] += 1
            if fams == [s["family"]]:
                sel["agree"] += 1
            elif fams == ["generic"] or not fams:
                sel["generic-where-fast-expected"].append(L.site_desc(s))
            else:
                rep.disagree(dict(L.site_desc(s), shape_kind="selection", config=config), "helper-outside-proven-range",
                             {"site": L.site_desc(s), "helpers_in_generated_c": s["helpers"], "spec_selects": s["family"]})
    cov["selection"] = {"sites": sel["n"], "agree": sel["agree"],
                       "generic_where_fast_expected": sel["generic-where-fast-expected"][:20],
                       "n_generic_where_fast_expected": len(sel["generic-where-fast-expected"])}
    operands, ns = build_operands(tier, rng)
    tables = {b.name: ([], []) for b in builds if b.ok}
    gridset = {v for _, v, _ in operands if type(v) is int}
    near = L.bnd_near_ints(P)
    nearset = set(near)
    # quick tier: the boundary float-constant sites are called on the neighbourhoods of all boundary constants, the smallest and
    # the largest ints, all floats, bools and a few other objects instead of the whole grid
    small = [(enc, val, seq) for enc, val, seq in operands
             if (type(val) is int and (val in nearset or abs(val) <= 2 or abs(val) >= 2 ** 1023)) or type(val) in (float, bool)
             or (isinstance(val, tuple) and val[1] in L.BND_OTHER)]
    for s in sites:
        if s["mod"] not in tables:
            continue
        cl, meta = tables[s["mod"]]
        for enc, val, seq in (small if (s.get("bnd") and tier == "quick") else operands):
            if isinstance(val, tuple) and val and val[0] == "py":
                pv = eval(val[1], ns)
            else:
                pv = val
            if not admissible(s, pv, seq):
                continue
            cl.append([s["fn"], [enc]])
            meta.append((s, enc, pv))
        if s.get("bnd"):
            for v in near:
                if v not in gridset:
                    cl.append([s["fn"], [calls.ienc(v)]])
                    meta.append((s, calls.ienc(v), v))
            for f in L.bnd_floats(P):
                if f not in L.FLOATS:
                    cl.append([s["fn"], [calls.fenc(f)]])
                    meta.append((s, calls.fenc(f), f))
        if s["ckind"] == "int":
            # operands derived from the site's constant: same low digits with extra high digits, neighbours, negation
            c = s["cv"][1]
            for v in sorted({c, -c, c + 1, c - 1, c + 2 ** 30, c - 2 ** 30, c + 2 ** 60, c - 2 ** 60, -(c + 2 ** 60), c * 2 ** 30, c + 2 ** 90,
                             2 ** 60 + c * 2 ** 30, c + 2 ** 59, c ^ (2 ** 61), -c - 2 ** 31} - gridset):
                cl.append([s["fn"], [calls.ienc(v)]])
                meta.append((s, calls.ienc(v), v))

    def runmod(name):
        return name, calls.run_calls(bymod[name], tables[name][0], prelude=L.PRELUDE, timeout=900)
    with concurrent.futures.ThreadPoolExecutor(max_workers=min(len(tables), 8) or 1) as ex:
        results = dict(ex.map(runmod, list(tables)))
    global _WORK
    _WORK = (tables, results, config)
    names = list(tables)
    import multiprocessing
    if len(names) > 1:
        with multiprocessing.get_context("fork").Pool(min(len(names), 8)) as pool:
            parts = pool.map(_compare_module, names)
    else:
        parts = [_compare_module(n) for n in names]
    stats = {"calls": 0, "decided_by_spec": 0, "generic": 0, "undecided": 0, "paths": {}, "nontrivial": set(), "samples": [], "collisions": {}}
    hazards_seen = {}
    for st, hz, drifts, dis in parts:
        for k, v in st["collisions"].items():
            stats["collisions"][k] = stats["collisions"].get(k, 0) + v
        for k in ("calls", "decided_by_spec", "generic", "undecided"):
            stats[k] += st[k]
        for k, v in st["paths"].items():
            stats["paths"][k] = stats["paths"].get(k, 0) + v
        stats["nontrivial"] |= st["nontrivial"]
        stats["samples"] += st["samples"]
        for k, v in hz.items():
            a = hazards_seen.setdefault(k, [0, 0])
            a[0] += v[0]
            a[1] += v[1]
        for what, detail in drifts:
            rep.spec_drift(what, detail)
        for desc, oc, detail in dis:
            rep.disagree(desc, oc, detail)
    stats["samples"] = stats["samples"][:4]
    stats["model_hazards_at_real_width"] = {k: {"cells": v[0], "confirmed_on_compiled_code": v[1]} for k, v in sorted(hazards_seen.items())}
    return sites, stats


_WORK = None


def _compare_module(name):
    """S (mirror at the real parameters) / P (CPython) / C (compiled) for every call of one module; runs in a forked worker"""
    tables, results, config = _WORK
    P = L.REAL
    cl, meta = tables[name]
    obs = results[name]
    rng = random.Random(len(cl))
    stats = {"calls": 0, "decided_by_spec": 0, "generic": 0, "undecided": 0, "paths": {}, "nontrivial": set(), "samples": [], "collisions": {}}
    hazards_seen, drifts, dis = {}, [], []
    for (s, enc, pv), o in zip(meta, obs):
        stats["calls"] += 1
        if s["shape"] == "pyint":
            pv = int(pv)
        xm = L.model_value(pv)
        sref = L.ref(P, s, xm)
        fres, path = L.fast(P, s, xm)
        if s["ctx"] == "bool" and sref.startswith("b:"):
            sref = "i:" + sref[2:]
            if fres.startswith("b:"):
                fres = "i:" + fres[2:]
        p = L.canon(L.py_eval(s, pv))
        c = L.canon(o) if not (isinstance(o, str) and (o.startswith("CRASH") or o == "TIMEOUT")) else "o:" + json.dumps(o)
        key = s["family"] + "/" + path
        stats["paths"][key] = stats["paths"].get(key, 0) + 1
        if s["ckind"] == "float" and type(pv) is int and L.round_collision(P, s, xm):
            ck = "%s/%s/%s" % (s["op"], s["order"], "neg" if s["cv"][1][1] < 0 else "pos")
            stats["collisions"][ck] = stats["collisions"].get(ck, 0) + 1
        if sref == "g":
            stats["generic"] += 1
        elif sref == "u":
            stats["undecided"] += 1
        else:
            stats["decided_by_spec"] += 1
            if sref != p:
                if len(drifts) < 20:
                    drifts.append(("reference vs CPython", {"site": L.site_desc(s), "x": repr(pv)[:80], "spec": sref[:120], "cpython": p[:120]}))
                continue
        if path != "generic":
            stats["nontrivial"].add((s["id"], path, xclass(pv), L.ndigits(P, pv) if type(pv) is int else 0))
        hazard = fres not in ("g", sref) and sref not in ("g", "u")
        if hazard:
            hazards_seen.setdefault(key, [0, 0])[0] += 1
        if c != p:
            desc = dict(L.site_desc(s), path=path, xkind=xm[0] if xm[0] != "other" else type(pv).__name__, xclass=xclass(pv))
            del desc["c"]
            desc["czero"] = s["cv"][1] == 0 if s["ckind"] == "int" else L.is_zero(s["cv"][1])
            desc["config"] = config
            if hazard:
                hazards_seen[key][1] += 1
            dis.append((desc, obs_class(p, c), {"source": L.render(s, s["fn"]), "x": enc, "x_repr": repr(pv)[:80], "cpython": p[:200],
                                                 "compiled": c[:200], "spec": sref[:200], "helpers": s.get("helpers"), "config": config}))
        elif len(stats["samples"]) < 2 and path not in ("generic", "slot") and rng.random() < 0.001:
            stats["samples"].append({"source": L.render(s, s["fn"]).strip(), "x": repr(pv)[:60], "expected": p[:80], "path": path})
    return stats, hazards_seen, drifts, dis


REQUIRED_PATHS = [   # vacuity guard on the model: every branch class of the transcription is inhabited
    "PyLongBinop/zero", "PyLongBinop/and1", "PyLongBinop/long", "PyLongBinop/llong", "PyLongBinop/slot", "PyLongBinop/float",
    "PyLongBinop/fallback", "PyLongBinop/generic",
    "PyLongCompare/cmp-zero", "PyLongCompare/cmp-sign", "PyLongCompare/cmp-digits1", "PyLongCompare/cmp-digits2", "PyLongCompare/cmp-float",
    "PyFloatBinop/fb-float", "PyFloatBinop/fb-zero", "PyFloatBinop/fb-compact", "PyFloatBinop/fb-join", "PyFloatBinop/fb-asdouble",
    "PyFloatBinop/fb-richcmp", "PyFloatBinop/fb-rem-infdiv",
    "PyNumberBinop/nb-ff", "PyNumberBinop/nb-xfloat", "PyNumberBinop/nb-xfloat-mul0", "PyNumberBinop/nb-xfloat-slot", "PyNumberBinop/nb-xint-float",
    "PyNumberBinop/nb-ii-slot", "PyNumberBinop/nb-ii-zero1", "PyNumberBinop/nb-ii-zero2", "PyNumberBinop/nb-reverse",
    "PyObjectCompare/oc-ii-tag", "PyObjectCompare/oc-ii-digits", "PyObjectCompare/oc-fi-sign", "PyObjectCompare/oc-fi-mag",
    "PyObjectCompare/oc-fi-nonfinite", "PyObjectCompare/oc-richcmp", "generic/generic",
]


# vacuity guard on the case class "rounding collision" (spec: RoundCollision): in the model and on real code every
# comparison operator x operand order x sign must meet an int that is unequal to the float constant but converts to it
REQUIRED_COLLISIONS = ["%s/%s/%s" % (op, order, sg) for op in ("Eq", "Ne") for order in ("ObjC", "CObj") for sg in ("pos", "neg")] + \
                      ["%s/ObjC/pos" % op for op in ("Add", "Subtract", "TrueDivide", "Remainder")]


def model_part(tier, rep, cov):
    """TLC on the scaled instance(s); the Python mirror is validated against every published cell"""
    cfgs = ["PyLongArith_q3"] if tier == "quick" else ["PyLongArith_t3", "PyLongArith_t4"]
    states = trans = ncells_all = 0
    declared = set()
    # the strict_* runs (below) do not depend on the main run: started now, collected afterwards
    strict = (("PyLongArith_strict_a", "PyFloatBinop/fb-rem-infdiv"), ("PyLongArith_strict_b", "PyNumberBinop/nb-xfloat-mul0"))
    pool = concurrent.futures.ThreadPoolExecutor(max_workers=len(strict))
    strict_runs = [pool.submit(core.tlc, "PyLongArith", cfg=cfgn, timeout=3000, workers=2) for cfgn, _ in strict]
    for cfgn in cfgs:
        t = core.tlc_or_die("PyLongArith", cfg=cfgn, timeout=3000)
        cfg = L.read_cfg(os.path.join(core.SPEC, cfgn + ".cfg"))
        declared |= set(cfg["DeclaredHazards"])
        if len(t.printed) != t.distinct or not t.printed:
            core.die("PyLongArith/%s: %d rows published for %d states" % (cfgn, len(t.printed), t.distinct))
        ncells, diffs, paths, hazards, coll = L.validate_rows(cfg, t.printed)
        nocoll = [k for k in REQUIRED_COLLISIONS if not coll.get(k)]
        if nocoll:
            core.die("PyLongArith/%s: vacuous model, no rounding-collision cell for %s" % (cfgn, nocoll))
        for d in diffs:
            rep.spec_drift("PyLongArith.tla vs its Python mirror (%s)" % cfgn, d)
        missing = [p for p in REQUIRED_PATHS if not paths.get(p)]
        if missing:
            core.die("PyLongArith/%s: vacuous model, no cell on paths %s" % (cfgn, missing))
        stale = [h for h in cfg["DeclaredHazards"] if not hazards.get(h)]
        if stale or set(hazards) - set(cfg["DeclaredHazards"]):
            core.die("PyLongArith/%s: declared hazards %s / model hazards %s" % (cfgn, cfg["DeclaredHazards"], hazards))
        states += t.distinct
        trans += t.generated
        ncells_all += ncells
        cov["tlc"].append(dict(t.summary(), config="%s: SHIFT=%d LONG=%d LLONG=%d CBITS=%d MANT=%d EMAX=%d, |x|<=%d + bools/floats/other, %d sites" % (
            cfgn, cfg["SHIFT"], cfg["LONG"], cfg["LLONG"], cfg["CBITS"], cfg["MANT"], cfg["EMAX"], cfg["XMAX"],
            len({(r["op"], r["order"], r["c"]) for r in t.printed})),
            cells=ncells, cells_per_path=paths, hazard_cells=hazards, rounding_collision_cells=coll,
            float_constants=sorted({r["c"] for r in t.printed if r["ck"] == "float"}),
            invariants=["Agree", "UndecidedIsGeneric", "NoUB", "TypeGuard", "BoolGuard", "ExactCompare"]))
    # the same model with one declared hazard removed: TLC must find that defect of the transcribed algorithm by itself
    for (cfgn, missing), fut in zip(strict, strict_runs):
        ts = fut.result()
        if ts.violation != "Agree":
            core.die("%s: expected a violation of Agree, got %r\n%s" % (cfgn, ts.violation, ts.out[-1500:]))
        cov["tlc"].append(dict(ts.summary(), config="%s: %s not declared -> invariant Agree violated, as expected" % (cfgn, missing)))
    pool.shutdown()
    cov.update({"states": states, "distinct_states": states, "transitions": trans, "cells_checked_against_mirror": ncells_all,
                "declared_model_hazards": sorted(declared)})
    return declared


def self_test():
    """binding demonstration: corrupted observations must be rejected by the comparison"""
    bad = 0
    for want, got in (("f:fin:-:0:0", "f:fin:+:0:0"), ("i:1073741824", "i:1073741825"), ("b:1", "i:1"), ("e:ZeroDivisionError", "f:inf:+"),
                      ("f:fin:+:1:0", "f:nan"), ("i:5", "o:\"CRASH:11\"")):
        if want == got or obs_class(want, got) in ("", None):
            bad += 1
    if L.canon(["f", "-0x0.0p+0"]) == L.canon(["f", "0x0.0p+0"]) or L.canon(["bool", True]) == L.canon(1) or L.canon({"big": str(2 ** 64)}) != "i:%d" % 2 ** 64:
        bad += 1
    if bad:
        core.die("binding self-test failed")


def run(tier, seed):
    t0 = time.time()
    rng = random.Random(seed)
    rep = core.Reporter(PROP)
    cov = {"tlc": []}
    self_test()
    declared = model_part(tier, rep, cov)
    sites, stats = replay_real(tier, rng, rep, cov)
    total_calls = stats["calls"]
    nontrivial = set(stats["nontrivial"])
    nocoll = [k for k in REQUIRED_COLLISIONS if not stats["collisions"].get(k)]
    if nocoll:
        core.die("real replay: no rounding-collision call (int != float constant, (double) int == constant) for %s" % nocoll)
    cov["real_rounding_collision_calls"] = dict(sorted(stats["collisions"].items()))
    cov["boundary_float_constants"] = [repr(f) for f in L.bnd_floats(L.REAL)]
    configs = ["default"]
    if tier != "quick":
        # the same sites with the digit-level fast paths compiled out: the helpers take their portable branches
        cov2 = {}
        sub = [s for s in L.real_sites("quick")]
        _, st2 = replay_real("quick", rng, rep, cov2, sites=sub, nmod=4, prefix="c02n", cflags=["-DCYTHON_USE_PYLONG_INTERNALS=0"], config="nointernals")
        total_calls += st2["calls"]
        cov["selection_nointernals"] = cov2.get("selection")
        configs.append("nointernals (-DCYTHON_USE_PYLONG_INTERNALS=0)")
    # every hazard class the model declares should show up on the real code (reported, never fails the run)
    real_h = stats["model_hazards_at_real_width"]
    cov["model_hazards_on_real_code"] = {h: real_h.get(h, {"cells": 0, "confirmed_on_compiled_code": 0}) for h in sorted(declared)}
    cov.update({
        "traces_validated_against_impl": total_calls, "evaluations": total_calls,
        "distinct_nontrivial": len(nontrivial),
        "exhaustive": True,
        "real_cells": {k: stats[k] for k in ("calls", "decided_by_spec", "generic", "undecided")},
        "real_cells_per_path": dict(sorted(stats["paths"].items())),
        "sites": len(sites), "build_configs": configs,
        "rule": "model: every site (op x order x constant) x every operand of the scaled instance (all ints |x| <= XMAX, bools, floats, "
                "other); real: one compiled function per site (op x order x constant x in-place x value/bool context x untyped/known-int) "
                "called on digit-boundary ints up to 2^1100, floats (signed zeros, inf, nan, subnormal), bools, int/float subclasses, "
                "other objects; non-trivial = distinct (site, fast-path class, operand class, digit count) served by a non-generic path",
        "samples": stats["samples"][:4] or [{"source": L.render(sites[0], sites[0]["fn"]).strip()}],
    })
    rc = rep.finish()
    cov["known_findings"] = rep.kf_summary()
    core.write_evidence(PROP, tier, seed, "model_checking", cov, time.time() - t0,
                        assumptions=["real-width expectations come from the Python mirror of PyLongArith.tla, validated cell by cell against TLC on the scaled instance(s)",
                                     "float results outside the normal range (subnormals) and float // are not decided by the spec: compiled code is compared with CPython only",
                                     "64-bit long == long long (LP64); the LLP64 split (32-bit long) is modelled by the LONG/LLONG constants but not instantiated",
                                     "operands of other types are opaque in the model (delegation to the generic protocol); on real code they are compared with CPython",
                                     "c << x and c >> x with a constant left operand are not optimised and unbounded: not generated"],
                        violations=rep.n_violations())
    return rc
