"""C02 - object arithmetic with constant operands matches CPython.

spec/PyLongArith.tla: reference semantics of  x op c / c op x  (ints, bools, floats on a scaled
IEEE model with signed zeros, inf, nan, half-even rounding) and an implementation-shaped
transcription of the helper families of Utility/Optimize.c (PyLongBinop, PyLongCompare,
PyFloatBinop, PyNumberBinop) together with the selection rule of Optimize.py.  TLC decides, for
every site x every operand of the scaled instance: FastPath = Reference or delegated to the
generic protocol, no C undefined behaviour - except on the declared hazard paths, whose cells it
publishes.
Binding: (1) the Python mirror (lib_pylong) is validated cell by cell against the TLC rows and
then evaluated at the real parameters (SHIFT=30, 64-bit long, 53-bit mantissa);
(2) B3: for every compiled site the helper the real compiler selected is read from the generated
C and compared with the spec's selection rule;
(3) B1: one compiled function per site, called on digit-boundary ints, floats (signed zeros, inf,
nan), bools, int/float subclasses and other objects; S = mirror, P = CPython, C = compiled code;
floats are compared exactly (sign of zero included), result type and exception type are observed.
"""
import concurrent.futures
import json
import os
import random
import sys
import time

import calls
import core
import lib_pylong as L

PROP = "C02"


def xclass(v):
    if type(v) is bool:
        return "bool"
    if type(v) is int:
        return "zero" if v == 0 else ("neg" if v < 0 else "pos")
    if type(v) is float:
        import math
        if v != v:
            return "nan"
        if v in (math.inf, -math.inf):
            return "inf"
        if v == 0:
            return "-0.0" if math.copysign(1, v) < 0 else "0.0"
        return "neg" if v < 0 else "pos"
    return type(v).__name__


def obs_class(want, got):
    if got.startswith("o:") and ("CRASH" in got or "TIMEOUT" in got):
        return "crash"
    if got.startswith("e:"):
        return "exception:" + got[2:] if not want.startswith("e:") else "wrong-exception:" + got[2:]
    if want.startswith("e:"):
        return "no-exception"
    if want[:2] != got[:2]:
        return "wrong-type"
    if want.startswith("f:fin") and got.startswith("f:fin") and want.split(":")[3:] == got.split(":")[3:] == ["0", "0"]:
        return "wrong-zero-sign"
    return "wrong-value"


def build_operands(tier, rng):
    """-> list of (argument encoding, python value, seq_flag)"""
    ns = {}
    exec(L.PRELUDE, ns)
    ops = []
    for v in L.int_grid(rng, tier):
        ops.append((calls.ienc(v), v, False))
    for f in L.FLOATS:
        ops.append((calls.fenc(f), f, False))
    ops.append((True, True, False))
    ops.append((False, False, False))
    for expr, seq in L.OTHER:
        ops.append(({"py": expr}, ("py", expr), seq))
    return ops, ns


def admissible(site, val, seq):
    if site["shape"] == "annint":
        return type(val) is int          # declared domain of `x: int`
    if seq and site["op"] == "Multiply" and site["ckind"] == "int" and abs(site["cv"][1]) > 1000:
        return False                     # sequence repetition: size cap
    return True


def replay_real(tier, rng, rep, cov, sites=None, nmod=None, prefix="c02m"):
    P = L.REAL
    sites = sites if sites is not None else L.real_sites(tier)
    nmod = nmod or (4 if tier == "quick" else 8)
    mods = L.gen_modules(sites, nmod, prefix)
    builds = core.build_many([core.BuildSpec(n, src, kind="py") for n, src in mods], jobs=min(nmod, 8))
    bymod = {b.name: b for b in builds}
    for b in builds:
        if not b.ok:
            rep.disagree({"shape": "build", "module": b.name}, "build-failed", {"errors": b.errors[-2500:]})
    # B3: which helper did the real compiler select?
    sel = {"agree": 0, "generic-where-fast-expected": [], "n": 0}
    for b in builds:
        if not b.ok:
            continue
        with open(b.c_file) as f:
            hs = L.helpers_in_c(f.read(), b.name)
        for s in sites:
            if s["mod"] != b.name:
                continue
            fams = L.helper_family(hs.get(s["fn"], []))
            s["helpers"] = hs.get(s["fn"], [])
            sel["n"] += 1
            if fams == [s["family"]]:
                sel["agree"] += 1
            elif fams == ["generic"] or not fams:
                sel["generic-where-fast-expected"].append(L.site_desc(s))
            else:
                rep.disagree(dict(L.site_desc(s), shape_kind="selection"), "helper-outside-proven-range",
                             {"site": L.site_desc(s), "helpers_in_generated_c": s["helpers"], "spec_selects": s["family"]})
    cov["selection"] = {"sites": sel["n"], "agree": sel["agree"],
                       "generic_where_fast_expected": sel["generic-where-fast-expected"][:20],
                       "n_generic_where_fast_expected": len(sel["generic-where-fast-expected"])}
    operands, ns = build_operands(tier, rng)
    tables = {b.name: ([], []) for b in builds if b.ok}
    for s in sites:
        if s["mod"] not in tables:
            continue
        cl, meta = tables[s["mod"]]
        for enc, val, seq in operands:
            if isinstance(val, tuple) and val and val[0] == "py":
                pv = eval(val[1], ns)
            else:
                pv = val
            if not admissible(s, pv, seq):
                continue
            cl.append([s["fn"], [enc]])
            meta.append((s, enc, pv))

    def runmod(name):
        return name, calls.run_calls(bymod[name], tables[name][0], prelude=L.PRELUDE, timeout=900)
    with concurrent.futures.ThreadPoolExecutor(max_workers=min(len(tables), 8) or 1) as ex:
        results = dict(ex.map(runmod, list(tables)))
    stats = {"calls": 0, "decided_by_spec": 0, "generic": 0, "undecided": 0, "paths": {}, "nontrivial": set(), "samples": []}
    hazards_seen = {}
    for name, (cl, meta) in tables.items():
        obs = results[name]
        for (s, enc, pv), o in zip(meta, obs):
            stats["calls"] += 1
            xm = L.model_value(pv)
            sref = L.ref(P, s, xm)
            fres, path = L.fast(P, s, xm)
            if s["ctx"] == "bool" and sref.startswith("b:"):
                sref = "i:" + sref[2:]
                if fres.startswith("b:"):
                    fres = "i:" + fres[2:]
            p = L.canon(L.py_eval(s, pv))
            c = L.canon(o) if not (isinstance(o, str) and (o.startswith("CRASH") or o == "TIMEOUT")) else "o:" + json.dumps(o)
            stats["paths"][s["family"] + "/" + path] = stats["paths"].get(s["family"] + "/" + path, 0) + 1
            if sref == "g":
                stats["generic"] += 1
            elif sref == "u":
                stats["undecided"] += 1
            else:
                stats["decided_by_spec"] += 1
                if sref != p:
                    rep.spec_drift("reference vs CPython", {"site": L.site_desc(s), "x": repr(pv)[:80], "spec": sref, "cpython": p})
                    continue
            if path not in ("generic",):
                stats["nontrivial"].add((s["id"], path, xclass(pv), L.ndigits(P, pv) if type(pv) is int else 0))
            if fres not in ("g", sref) and sref not in ("g", "u"):
                hazards_seen.setdefault(s["family"] + "/" + path, [0, 0])[0] += 1
            if c != p:
                desc = dict(L.site_desc(s), path=path, xkind=xm[0] if xm[0] != "other" else type(pv).__name__, xclass=xclass(pv))
                del desc["c"]
                desc["czero"] = s["cv"][1] == 0 if s["ckind"] == "int" else L.is_zero(s["cv"][1])
                oc = obs_class(p, c)
                if fres not in ("g", sref) and sref not in ("g", "u") and (s["family"] + "/" + path) in hazards_seen:
                    hazards_seen[s["family"] + "/" + path][1] += 1
                rep.disagree(desc, oc, {"source": L.render(s, s["fn"]), "x": enc, "x_repr": repr(pv)[:80], "cpython": p, "compiled": c,
                                        "spec": sref, "helpers": s.get("helpers")})
            elif len(stats["samples"]) < 4 and path not in ("generic", "slot") and rng.random() < 0.001:
                stats["samples"].append({"source": L.render(s, s["fn"]).strip(), "x": repr(pv)[:60], "expected": p, "path": path})
    stats["model_hazards_at_real_width"] = {k: {"cells": v[0], "confirmed_on_compiled_code": v[1]} for k, v in sorted(hazards_seen.items())}
    return sites, stats


def run(tier, seed):
    t0 = time.time()
    rng = random.Random(seed)
    rep = core.Reporter(PROP)
    cov = {"tlc": []}
    sites, stats = replay_real(tier, rng, rep, cov)
    print(json.dumps({k: v for k, v in stats.items() if k not in ("nontrivial", "samples")}, indent=1)[:3000])
    print(json.dumps(cov["selection"], indent=1)[:3000])
    rc = rep.finish()
    return rc
