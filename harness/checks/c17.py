"""C17 -- buffer acquisition accepts exactly the matching buffers.

spec/BufFmt.tla: a format is a sequence of lexemes; reference = struct-module layout rules + the PEP 3118
additions as NumPy reads them -> leaves <group, size, offset, shape> and item size; declared dtypes are C type
trees laid out by the x86-64 ABI; verdict compatible / incompatible / unspecified.  Implementation-shaped =
__Pyx_BufFmt_Init / _CheckString / _ProcessTypeChunk / __pyx_buffmt_parse_array of Utility/Buffer.c with the whole
__Pyx_BufFmt_Context, outcome accept / reject / crash (NULL ctx->head dereferenced) / hang.  TLC explores, per
dtype, its spine formats under edits (replace / insert / delete a production, wrap in T{}, repeat a record, put
productions behind the end) and decides: no false accept; the transcription agrees with the reference except
where a marked code point or a marked kind of format is involved (the deviations of the code as it is).
spec/BufGeom.tla (part G): exporter views <offset, [extent, stride, indirect]> under view operations against the
declared axes (int[:], int[::1], int[:, :], int[:, ::1], int[::1, :], int[:, :, ::1], int[:, :, :], object[int, ndim=k]);
reference = number of dimensions, direct access, PyBuffer_IsContiguous; transcription of __pyx_check_strides /
__pyx_check_suboffsets / __pyx_verify_contig (MemoryView_C.c); P = CPython's memoryview of the same exporter.

Binding B1: every published state is executed on code compiled from the working tree: a cdef class exporter
hands out exactly the model's format text / item size (the format's own size, and sizeof(dtype) where the
format is shorter) over fixed random bytes, acquired through `cdef T[:] v = obj` and through an
`object[T, ndim=1]` argument for every C type with the model dtype's type information; observation = the
scalars of all elements, or the exception type, or death by signal (calls the model predicts to crash or hang
run in a forked copy).  Expected = the reference verdict: compatible -> the values struct.unpack reads at the
dtype's offsets; incompatible -> ValueError or TypeError; unspecified -> either.  P: NumPy's PEP 3118 reader and
struct.calcsize for the layout of every format, offsetof/sizeof from the C compiler for every dtype,
struct.unpack of the exporter's own format for the values.
"""
import collections
import concurrent.futures
import json
import os
import random
import struct
import sys
import time

import core
import lib_buffmt as L

PROP = "C17"

SCALARS_T = list(L.SC)
STRUCTS = list(L.STRUCT_ORDER)

TIERS = {
    "quick": {"fmt_cfgs": ["BufFmt_q1", "BufFmt_q2"], "geom_cfg": "BufGeom_quick", "hangs": 2, "crashes": 60, "timeout": 900, "min_cases": 8000},
    "thorough": {"fmt_cfgs": ["BufFmt_t1", "BufFmt_t2", "BufFmt_t3"], "geom_cfg": "BufGeom_thorough", "hangs": 8, "crashes": 600, "timeout": 2400, "min_cases": 100000},
}

GEOM_ACTIONS = ["Transpose", "Second", "Reverse", "Broadcast", "PadRows", "Indirect"]
GEOM_NEEDED = ["ok", "rejected", "ndim-mismatch", "indirect", "empty", "c-contiguous", "f-contiguous", "neither", "negative-stride", "zero-stride"]
GEOM_BASE = 256          # element of the raw bytes where offset 0 of the model's base lies

ACTIONS = ["Subst", "Insert", "InsertEnd", "Delete", "WrapAll", "WrapOne", "Repeat2", "StrayClose", "Tack"]
NEEDED = ["v:compatible", "v:incompatible", "v:unspecified", "ir:accept", "ir:reject", "ir:crash", "ir:hang",
          "fl:nN", "fl:tab", "fl:struct-pad", "fl:zero-count", "fl:shape-blank", "ie:null-head", "ie:struct-in-first-member",
          "ie:unknown-char", "ie:big-endian", "ie:zero-count-chunk", "ie:stray-close", "dt-itemsize", "big", "invalid", "agree:compatible",
          "agree:incompatible"]


def log(t0, msg):
    sys.stderr.write("[c17 %6.1fs] %s\n" % (time.time() - t0, msg))
    sys.stderr.flush()


def text_of(lexemes):
    return "".join(lexemes)


def canon_of(leaves):
    """spec leaves [g, sz, off, shape] -> scalars (arrays spread out, complex = two reals)"""
    out = []
    for g, sz, off, shp in leaves:
        n = 1
        for d in shp:
            n *= d
        for k in range(n):
            o = off + k * sz
            if g == "C":
                out.append(("R", sz // 2, o))
                out.append(("R", sz // 2, o + sz // 2))
            else:
                out.append((g, sz, o))
    return out


def classes(cases):
    c = collections.Counter()
    for r in cases:
        c["v:" + r["v"]] += 1
        c["ir:" + r["ir"]] += 1
        for f in r["fl"]:
            c["fl:" + f] += 1
        for e in r["ie"]:
            c["ie:" + e] += 1
        if r["vd"]:
            c["dt-itemsize"] += 1
        if r["big"]:
            c["big"] += 1
        if not r["ok"]:
            c["invalid"] += 1
        if (r["v"], r["ir"]) in (("compatible", "accept"), ("incompatible", "reject")):
            c["agree:" + r["v"]] += 1
    return dict(c)


def judge(v, ob, want_values):
    """-> None (as demanded) or the class of the wrong observation"""
    kind = ob[0]
    if kind in ("crash", "hang"):
        return kind
    if kind == "ok":
        if v == "incompatible":
            return "no-exception"
        return None if ob[1] == want_values else "wrong-values"
    if ob[1] not in ("ValueError", "TypeError"):
        return "wrong-exception-type"
    return "exception" if v == "compatible" else None


def geom_classes(gcases):
    c = collections.Counter()
    for g in gcases:
        c["ok" if g["ok"] else "rejected"] += 1
        if len(g["decl"]) != len(g["shape"]):
            c["ndim-mismatch"] += 1
        if any(g["ind"]):
            c["indirect"] += 1
        n = 1
        for d in g["shape"]:
            n *= d
        if n == 0:
            c["empty"] += 1
        c["c-contiguous" if g["c"] else "not-c"] += 1
        c["f-contiguous" if g["f"] else "not-f"] += 1
        if not g["c"] and not g["f"]:
            c["neither"] += 1
        if any(x < 0 for x in g["strides"]):
            c["negative-stride"] += 1
        if any(x == 0 for x in g["strides"]):
            c["zero-stride"] += 1
    return dict(c)


def geom_values(els):
    return [struct.unpack_from("=i", L.RAW, (GEOM_BASE + e) * 4)[0] for e in els]


def fmt_oracle(cases, rep):
    """P for the layout of every distinct format: NumPy's reader and struct.calcsize against the spec's leaves"""
    seen = {}
    stats = collections.Counter()
    for r in cases:
        t = text_of(r["f"])
        if t in seen:
            continue
        seen[t] = True
        spec = [(g, sz, off) for g, sz, off in r["cn"]]
        nl = L.numpy_layout(t) if "\t" not in t else None     # NumPy's reader does not skip a tab
        ss = L.struct_size(t)
        if "stray-close" in r["ie"] or "}" in t.replace("T{", "").replace("}", "", t.count("T{")):
            stats["unbalanced-not-asked"] += 1       # outside the grammar of both oracles
            continue
        if not r["ok"]:
            if nl is not None or ss is not None:
                rep.spec_drift("format invalid for the spec but read by an oracle", {"fmt": t, "numpy": nl, "calcsize": ss})
            stats["invalid-agreed"] += 1
            continue
        if nl is None and ss is None:
            stats["no-oracle"] += 1
            continue
        if ss is not None:
            stats["calcsize"] += 1
            if ss != r["size"]:
                rep.spec_drift("item size: spec vs struct.calcsize", {"fmt": t, "spec": r["size"], "calcsize": ss})
        if nl is not None:
            stats["numpy"] += 1
            leaves, isz = nl
            same = len(leaves) == len(spec) and all(a[1:] == b[1:] and L.group_same(a[0], b[0]) for a, b in zip(spec, leaves))
            # NumPy pads the item at top level to the alignment of its members in @ mode; the struct module does not
            if not same or (isz != r["size"] and not (ss == r["size"] or (ss is None and isz >= r["size"] and isz - r["size"] < 16))):
                rep.spec_drift("layout: spec vs NumPy's PEP 3118 reader", {"fmt": t, "spec": spec, "spec_size": r["size"], "numpy": leaves, "numpy_size": isz})
    return dict(stats)


def _dev_cached(kind, key, make):
    """development only (C17_DEV_CACHE=<dir>): reuse TLC results / the built module while the check is being written"""
    cache = os.environ.get("C17_DEV_CACHE")
    if not cache:
        return make()
    import pickle
    fn = os.path.join(cache, "%s_%s.pkl" % (kind, key))
    if os.path.exists(fn):
        with open(fn, "rb") as f:
            return pickle.load(f)
    r = make()
    if getattr(r, "ok", False):
        os.makedirs(cache, exist_ok=True)
        with open(fn, "wb") as f:
            pickle.dump(r, f)
    return r


def _tlc(module, cfg, **kw):
    key = "%s_%d_%d" % (cfg, os.path.getmtime(os.path.join(core.SPEC, module + ".tla")), os.path.getmtime(os.path.join(core.SPEC, cfg + ".cfg")))
    return _dev_cached("tlc", key, lambda: core.tlc(module, cfg=cfg, **kw))


def _build(src):
    import hashlib
    if os.environ.get("C17_DEV_CACHE"):
        h = hashlib.sha1((src + core.REPO).encode())
        for rel in ("Utility/Buffer.c", "Utility/MemoryView_C.c", "Utility/MemoryView.pyx", "Compiler/Buffer.py", "Compiler/MemoryView.py"):
            with open(os.path.join(core.REPO, "Cython", rel), "rb") as f:
                h.update(f.read())
        d = os.path.join(os.environ["C17_DEV_CACHE"], "build_" + h.hexdigest()[:12])
        return _dev_cached("build", os.path.basename(d), lambda: core.build_many([core.BuildSpec("c17m", src)], d, 1)[0])
    return core.build_many([core.BuildSpec("c17m", src)], core.subdir("c17build"), 1)[0]


def run(tier, seed):
    t0 = time.time()
    rng = random.Random(seed)
    rep = core.Reporter(PROP)
    T = TIERS[tier]
    cov = {"tlc": []}
    models = SCALARS_T + STRUCTS
    src, ids = L.module_source(models)

    # ------------------------------------------------------------------ model checking (+ the build, concurrently)
    nw = max(2, core.NCPU // len(T["fmt_cfgs"]))
    with concurrent.futures.ThreadPoolExecutor(max_workers=len(T["fmt_cfgs"]) + 2) as ex:
        bfut = ex.submit(_build, src)
        gfut = ex.submit(_tlc, "BufGeom", T["geom_cfg"], workers=2, timeout=T["timeout"], deadlock=False)
        futs = [(cfg, ex.submit(_tlc, "BufFmt", cfg, workers=nw, timeout=T["timeout"], deadlock=False,
                                heap="4g" if tier == "thorough" else None)) for cfg in T["fmt_cfgs"]]
        results = [(cfg, f.result()) for cfg, f in futs]
        build = bfut.result()
        gres = gfut.result()
    cases, dtypes = [], {}
    states = distinct = 0
    actcov = collections.Counter()
    for cfg, r in results:
        cov["tlc"].append(dict(r.summary(), config=cfg))
        if not r.ok:
            sys.stderr.write(r.out[-6000:])
            core.die("TLC failed (%s): %s" % (r.violation or r.rc, r.cmd))
        states += r.generated
        distinct += r.distinct
        ncase = 0
        for rec in r.printed:
            if "dtype" in rec:
                dtypes[rec["dtype"]] = rec
            else:
                cases.append(rec)
                ncase += 1
        if ncase != r.distinct:
            core.die("%s: %d cases published for %d distinct states" % (cfg, ncase, r.distinct))
    cov["tlc"].append(dict(gres.summary(), config=T["geom_cfg"]))
    if not gres.ok:
        sys.stderr.write(gres.out[-6000:])
        core.die("TLC failed (%s): %s" % (gres.violation or gres.rc, gres.cmd))
    gcases = gres.printed
    if len(gcases) != gres.distinct:
        core.die("%s: %d cases published for %d distinct states" % (T["geom_cfg"], len(gcases), gres.distinct))
    states += gres.generated
    distinct += gres.distinct
    gact = collections.Counter(g["act"] for g in gcases)
    gdead = [a for a in GEOM_ACTIONS if not gact.get(a)]
    gkl = geom_classes(gcases)
    cov["geometry_action_coverage"] = {a: gact.get(a, 0) for a in GEOM_ACTIONS}
    cov["geometry_case_classes"] = gkl
    if gdead or [k for k in GEOM_NEEDED if not gkl.get(k)]:
        core.die("vacuous geometry model: actions %s, classes %s" % (gdead, [k for k in GEOM_NEEDED if not gkl.get(k)]))
    log(t0, "TLC done: %d states, %d format cases, %d dtypes, %d geometry cases" % (states, len(cases), len(dtypes), len(gcases)))
    for rec in cases:
        actcov[rec["act"]] += 1
    cov["action_coverage"] = {a: actcov.get(a, 0) for a in ACTIONS}
    dead = [a for a in ACTIONS if not actcov.get(a)]
    if dead:
        core.die("vacuous model: actions never taken: %s" % dead)
    kl = classes(cases)
    cov["model_case_classes"] = kl
    missing = [k for k in NEEDED if not kl.get(k)]
    if missing:
        core.die("vacuous model: no published case of class %s" % missing)
    if len(cases) < T["min_cases"]:
        core.die("only %d cases published" % len(cases))
    if not build.ok:
        rep.disagree({"part": "build", "stage": build.stage}, "build-failed", {"errors": (build.errors or "")[-3000:]})
        rc = rep.finish()
        core.write_evidence(PROP, tier, seed, "model_checking", {"evaluations": 1, "distinct_nontrivial": 0, "states": states, "transitions": states,
                            "traces_validated_against_impl": 0, "samples": ["build failed"]}, time.time() - t0, violations=1)
        return rc

    # ------------------------------------------------------------------ P: layouts of the dtypes and of the formats
    lay = L.run_layouts(build, [cid for cid, _ in ids])
    dcanon = {}
    for cid, mname in ids:
        if mname not in dtypes:
            continue
        d = dtypes[mname]
        meta = L.model_leaf_meta(mname)
        spec_l = [(g, sz, off, list(shp)) for g, sz, off, shp in d["leaves"]]
        got = lay[cid]
        c_l = [(m[0], sz, off, list(m[1])) for (off, sz), m in zip(got[1], meta)]
        if got[0] != d["size"] or c_l != spec_l:
            rep.spec_drift("dtype layout: spec (x86-64 ABI rules) vs the C compiler", {"dtype": cid, "spec": [d["size"], spec_l], "cc": [got[0], c_l]})
        dcanon[mname] = canon_of(d["leaves"])
    cov["format_oracle"] = fmt_oracle(cases, rep)
    log(t0, "oracles done: %s" % cov["format_oracle"])

    # ------------------------------------------------------------------ calls
    by_model = collections.defaultdict(list)
    for cid, mname in ids:
        by_model[mname].append(cid)
    calls, meta = [], []
    hang_budget = T["hangs"]
    crash_budget = T["crashes"]
    skipped_hangs = skipped_crashes = 0
    order = list(range(len(cases)))
    rng.shuffle(order)
    for ci in order:
        r = cases[ci]
        t = text_of(r["f"])
        risky = r["ir"] in ("crash", "hang")
        modes = [("fmt", r["isz"], r["v"], r["ir"])]
        if r["vd"]:
            modes.append(("dtype", dtypes[r["dt"]]["size"], r["vd"], r["ird"]))
        for cid in by_model[r["dt"]]:
            for path in ("mv", "bf"):
                for mode, isz, v, ir in modes:
                    # a call predicted to die costs a process (and a hang a CPU second): a seeded sample of them is executed
                    if ir == "hang":
                        if hang_budget <= 0:
                            skipped_hangs += 1
                            continue
                        hang_budget -= 1
                    if ir == "crash":
                        if crash_budget <= 0:
                            skipped_crashes += 1
                            continue
                        crash_budget -= 1
                    calls.append(["%s_%s" % (path, cid), t, isz, [L.NITEMS], None, 0, None, risky])
                    meta.append((ci, cid, path, mode, isz, v, ir))
    # part G: the exporter of every geometry case, acquired through the declared axes
    for gi, g in enumerate(gcases):
        key = "+".join(g["decl"])
        mvf, bff = L.GEOM_DECL[key]
        sub = [0 if x else -1 for x in g["ind"]] if any(g["ind"]) else None
        args = ["i", 4, g["shape"], [x * 4 for x in g["strides"]], (GEOM_BASE + g["off"]) * 4, sub, False]
        v = "compatible" if g["ok"] else "incompatible"
        calls.append([mvf] + args)
        meta.append(("G", gi, "mv", v))
        if bff and sub is None:
            calls.append([bff] + args)
            meta.append(("G", gi, "bf", v))
        if sub is None and len(g["shape"]) >= 1:
            calls.append(["P_geom"] + args)
            meta.append(("GP", gi, "P", v))
    log(t0, "%d calls planned" % len(calls))
    # risky calls (forked) last within their chunk is not needed: each is isolated
    nchunks = max(1, min(8, len(calls) // 5000))
    chunks = [list(range(k, len(calls), nchunks)) for k in range(nchunks)]
    with concurrent.futures.ThreadPoolExecutor(max_workers=nchunks) as ex:
        outs = list(ex.map(lambda kc: L.run_acquisitions(build, [calls[i] for i in kc[1]], tag="acq%d" % kc[0]), enumerate(chunks)))
    obs = [None] * len(calls)
    for idxs, out in zip(chunks, outs):
        for i, o in zip(idxs, out):
            obs[i] = o
    log(t0, "%d calls done" % len(calls))

    # ------------------------------------------------------------------ verdicts
    n_exec = 0
    per = collections.Counter()
    nontrivial = set()
    matched = []
    fidelity = collections.Counter()
    unbalanced = 0
    pvals = collections.Counter()
    n_geom = n_unexecuted = 0
    for call, m, ob in zip(calls, meta, obs):
        if ob is None:
            if L.ABORTED:
                n_unexecuted += 1
                continue
            core.die("no observation for %r" % (call,))
        if m[0] in ("G", "GP"):
            g = gcases[m[1]]
            want = geom_values(g["els"])
            if m[0] == "GP":       # CPython's memoryview of the same exporter
                empty = 0 in g["shape"]    # the memoryview object's flags of an empty buffer follow its strides, PyBuffer_IsContiguous does not
                if ob[0] != "ok" or (ob[1][2:] if empty else ob[1]) != ([] if empty else [g["c"], g["f"]]) + want:
                    rep.spec_drift("geometry: spec vs CPython's memoryview (contiguity flags, elements)",
                                   {"case": {k: g[k] for k in ("shape", "strides", "off")}, "spec": [g["c"], g["f"]] + want, "memoryview": ob})
                continue
            n_exec += 1
            n_geom += 1
            per["geometry-" + m[2] + ":" + m[3]] += 1
            if g["nops"]:
                nontrivial.add((call[0], json.dumps(call[3:7])))
            fidelity["same" if (ob[0] == "ok") == g["iok"] else "differs"] += 1
            bad = judge(m[3], ob, want)
            if bad is None:
                if len(matched) < 5000:
                    matched.append((m[3], ob, want))
                continue
            rep.disagree({"part": "geometry", "decl": "+".join(g["decl"]), "path": m[2], "ref": m[3], "model": "accept" if g["iok"] else "reject",
                          "indirect": any(g["ind"]), "ndim": len(g["shape"])}, bad,
                         {"shape": g["shape"], "strides_in_items": g["strides"], "offset_in_items": g["off"], "indirect": g["ind"],
                          "call": call[:7], "expected": [m[3], want], "observed": ob})
            continue
        ci, cid, path, mode, isz, v, ir = m
        r = cases[ci]
        n_exec += 1
        per[path + ":" + v] += 1
        want = L.decode(dcanon[r["dt"]], isz) if v != "incompatible" else None
        if r["ned"] or r["nt"]:
            nontrivial.add((call[0], call[1], isz))
        # P for the values: the exporter's own format through struct.unpack
        if v == "compatible" and mode == "fmt":
            raw = L.raw_for(isz)
            pv = [L.unpack_values(call[1], raw[k * isz:(k + 1) * isz]) for k in range(L.NITEMS)]
            if any(x is None for x in pv):
                pvals["struct-cannot"] += 1
            else:
                pvals["compared"] += 1
                pv = [y for x in pv for y in x]
                if not L.same_values(pv, want):
                    rep.spec_drift("values: decoding at the dtype's offsets vs struct.unpack of the format",
                                   {"fmt": call[1], "dtype": cid, "spec": want, "unpack": pv})
        # how well the transcription predicts the code as it is (reported, never a verdict)
        got_class = "accept" if ob[0] == "ok" else "reject" if ob[0] == "exc" else ob[0]
        fidelity["same" if got_class == ir else "differs"] += 1
        if ob[0] in ("ok", "exc") and ob[2] != ob[3]:
            unbalanced += 1
        bad = judge(v, ob, want)
        if bad is None:
            if len(matched) < 5000:
                matched.append((v, ob, want))
            continue
        desc = {"part": "format", "dtype": r["dt"], "path": path, "itemsize": mode, "ref": v, "model": ir,
                "flags": "+".join(sorted(r["fl"])), "events": "+".join(sorted(r["ie"]))}
        rep.disagree(desc, bad, {"format": call[1], "ctype": cid, "itemsize": isz, "call": call[:3], "expected": v if want is None else [v, want],
                                 "observed": ob, "model_outcome": ir})

    # binding demonstration: corrupted expectations must be rejected by the same comparison
    demo = core.sample(matched, 300, rng)
    if len(demo) < 50 and not L.ABORTED:
        core.die("binding self-test: only %d matching observations" % len(demo))
    n_demo = 0
    for v, ob, want in demo:
        if ob[0] == "ok":
            if not want:
                continue
            w2 = list(want)
            j = rng.randrange(len(w2))
            w2[j] = (w2[j] + 1) if isinstance(w2[j], int) else "0x1.8p+1"
            if w2[j] == want[j]:
                continue
            if judge("compatible", ob, w2) is None or judge("incompatible", ob, None) is None:
                core.die("binding self-test failed on an accepted case")
        else:
            if judge("compatible", ob, want) is None:
                core.die("binding self-test failed on a rejected case")
        n_demo += 1

    samp = [cases[i] for i in rng.sample(range(len(cases)), 6)]
    cov.update({
        "states": states, "distinct_states": distinct, "transitions": states,
        "traces_validated_against_impl": n_exec, "evaluations": n_exec, "distinct_nontrivial": len(nontrivial),
        "cases_published": len(cases) + len(gcases), "format_cases": len(cases), "geometry_cases": len(gcases),
        "geometry_executions": n_geom, "calls_left_unexecuted_after_repeated_driver_deaths": n_unexecuted, "executed_per_path_and_verdict": dict(per),
        "predicted_hang_calls_not_executed": skipped_hangs, "predicted_crash_calls_not_executed": skipped_crashes, "transcription_vs_code": dict(fidelity),
        "acquisitions_with_unbalanced_release": unbalanced, "value_oracle": dict(pvals), "binding_selftest_cases": n_demo,
        "dtypes": sorted(dtypes), "c_types": [cid for cid, _ in ids], "exhaustive": True,
        "rule": "every state published by TLC (a dtype and an edited spine format) is executed for every C type of the dtype, through the "
                "typed-memoryview and the legacy-buffer path, with the format's own item size and with sizeof(dtype); non-trivial = distinct "
                "(function, format text, item size) whose format is not an unedited spine",
        "samples": [{"dtype": r["dt"], "format": text_of(r["f"]), "itemsize": r["isz"], "reference": r["v"], "model_of_code": r["ir"],
                     "flags": r["fl"], "events": r["ie"]} for r in samp],
    })
    rc = rep.finish()
    cov["known_findings"] = rep.kf_summary()
    core.write_evidence(PROP, tier, seed, "model_checking", cov, time.time() - t0,
                        assumptions=["x86-64 little-endian ABI (sizes and alignments are part of the spec; checked against the C compiler on every run)",
                                     "a format that mentions > or ! counts as incompatible whatever its items are",
                                     "formats are well-formed (balanced T{}, terminated names, counts <= 8); 1-D buffers of two items",
                                     "same bytes but different structure (3i / int[3], Zd / two doubles, 4s / four chars) is unspecified: both outcomes pass",
                                     "the exporter is not asked to validate the request flags; object and pointer dtypes are not declared"],
                        violations=rep.n_violations())
    return rc


def replay(path, seed):
    """re-execute the cases of a replay file on the working tree and print what is observed now"""
    with open(path) as f:
        rec = json.load(f)
    src, ids = L.module_source(SCALARS_T + STRUCTS)
    build = _build(src)
    if not build.ok:
        core.die("build failed: %s" % (build.errors or "")[-2000:])
    calls = []
    for c in rec["cases"]:
        call = c["call"]
        if rec["descriptor"].get("part") == "geometry":
            calls.append(list(call[:7]) + [True])
        else:
            calls.append([call[0], call[1], call[2], [L.NITEMS], None, 0, None, True])
    obs = L.run_acquisitions(build, calls, tag="replay")
    still = 0
    for c, ob in zip(rec["cases"], obs):
        same = ob == c["observed"]
        still += same
        print("%s\n  expected %s\n  recorded %s\n  now      %s" % (c["call"], json.dumps(c["expected"])[:300], c["observed"], ob))
    print("descriptor %s: %d of %d case(s) observed as recorded" % (json.dumps(rec["descriptor"]), still, len(calls)))
    return 1 if still else 0
