"""C40 helpers: value encoding shared with spec/TypeInfer.tla, the arithmetic conformance
cases, the program generator / renderer and the fact digests."""
import fractions
import math
import re

B = 10000
HUGE = 1e308


# --------------------------------------------------------------------------- values <-> spec records

def limbs(n):
    n = abs(n)
    out = []
    while n:
        out.append(n % B)
        n //= B
    return out


def e_int(n):
    return {"k": "int", "neg": n < 0, "m": limbs(n)}


def dyadic(x):
    """(n, e) with x == n / 2**e in the model's grid, else None"""
    fr = fractions.Fraction(x)
    d = fr.denominator
    if d & (d - 1):
        return None
    e = d.bit_length() - 1
    if e > 8 or abs(fr.numerator) >= 32768:
        return None
    return fr.numerator, e


def e_float(x):
    if x == HUGE:
        return {"k": "flt", "c": "huge", "n": 0, "e": 0}
    d = dyadic(x)
    if d is None or (x == 0 and math.copysign(1, x) < 0):
        raise ValueError("float literal %r outside the model grid" % (x,))
    return {"k": "flt", "c": "dy", "n": d[0], "e": d[1]}


def e_str(s):
    return {"k": "str", "s": [ord(c) for c in s]}


def e_bool(b):
    return {"k": "bool", "b": bool(b)}


def e_lit(v):
    if isinstance(v, bool):
        return e_bool(v)
    if isinstance(v, int):
        return e_int(v)
    if isinstance(v, float):
        return e_float(v)
    if isinstance(v, str):
        return e_str(v)
    raise ValueError(v)


UND = ("und",)


def from_spec(r):
    """spec value record -> ('v', python value) | ('fund',) float with undecided value | ('E', name) | ('und',)"""
    t = r["t"]
    if t == "int":
        n = 0
        for d in reversed(r["m"]):
            n = n * B + d
        return ("v", -n if r["neg"] else n)
    if t == "bool":
        return ("v", bool(r["b"]))
    if t == "float":
        if r["c"] == "und":
            return ("fund",)
        if r["c"] == "huge":
            return ("v", HUGE)
        return ("v", r["n"] / float(2 ** r["e"]))
    if t == "str":
        return ("v", "".join(chr(c) for c in r["s"]))
    if t == "tup":
        return ("t", [from_spec(x) for x in r["xs"]])
    if t == "exc":
        return ("E", r["x"])
    return UND


def obs_of_python(fn):
    """run fn() -> the same shape as from_spec"""
    try:
        v = fn()
    except Exception as e:       # noqa
        return ("E", type(e).__name__)
    return shape(v)


def shape(v):
    if isinstance(v, tuple):
        return ("t", [shape(x) for x in v])
    return ("v", v)


def same_value(a, b):
    return type(a) is type(b) and (a == b) and (not isinstance(a, float) or math.copysign(1, a) == math.copysign(1, b))


def agree(spec, py):
    """does the spec's (possibly partly undecided) observation accept the Python observation?
    returns (ok, decided) -- decided False when the model left (part of) the value open"""
    if spec == UND:
        return True, False
    if spec[0] == "fund":
        return (py[0] == "v" and type(py[1]) is float), False
    if spec[0] == "E":
        return (py[0] == "E" and py[1] == spec[1]), True
    if spec[0] == "t":
        if py[0] != "t" or len(py[1]) != len(spec[1]):
            return False, True
        ok, dec = True, True
        for s, p in zip(spec[1], py[1]):
            o, d = agree(s, p)
            ok, dec = ok and o, dec and d
        return ok, dec
    return (py[0] == "v" and same_value(spec[1], py[1])), True


# --------------------------------------------------------------------------- arithmetic conformance

_INTS = [0, 1, -1, 2, 3, -3, 7, 10, 255, 256, 9999, 10000, 10001, -10000, 32767, 32768, 65535, 2 ** 31 - 1, 2 ** 31, -2 ** 31,
         2 ** 32 + 5, 10 ** 8, 10 ** 8 - 1, 2 ** 53, 2 ** 53 + 1, 2 ** 62, 2 ** 63 - 1, 2 ** 63, -2 ** 63, -2 ** 63 - 1, 2 ** 64,
         10 ** 20, -10 ** 20 + 7, 2 ** 70, 3 ** 50, -(2 ** 100) + 12345, 10 ** 40 + 1]
_FLOATS = [0.0, 0.5, 1.0, 1.5, 2.0, 2.5, 3.0, -0.5, -1.5, -2.0, 0.25, 100.0, 0.125, 7.75, HUGE]
_STRS = ["", "a", "ab", "abc", "b", "\0x"]
_PYOPS = {"+": lambda a, b: a + b, "-": lambda a, b: a - b, "*": lambda a, b: a * b, "//": lambda a, b: a // b,
          "%": lambda a, b: a % b, "/": lambda a, b: a / b, "**": lambda a, b: a ** b, "<<": lambda a, b: a << b,
          ">>": lambda a, b: a >> b, "&": lambda a, b: a & b, "|": lambda a, b: a | b, "^": lambda a, b: a ^ b,
          "<": lambda a, b: a < b, "<=": lambda a, b: a <= b, "==": lambda a, b: a == b, "!=": lambda a, b: a != b,
          ">": lambda a, b: a > b, ">=": lambda a, b: a >= b,
          "neg": lambda a, b: -a, "inv": lambda a, b: ~a, "abs": lambda a, b: abs(a),
          "fits64": lambda a, b: -2 ** 63 <= a < 2 ** 63}


def arith_cases(rng, n):
    """(op, x, y) cases for the PyNum conformance phase: a fixed boundary grid + n seeded random ones"""
    cases = []

    def add(op, x, y):
        if op == "**" and not (isinstance(y, (int, bool)) and -6 <= y <= 70 or isinstance(y, float)):
            return
        if op == "**" and isinstance(x, int) and abs(x) > 2 ** 64 and isinstance(y, int) and y > 8:
            return
        if op in ("<<", ">>") and isinstance(y, int) and y > 300:
            return
        if op == "*" and (isinstance(x, str) and isinstance(y, int) and y > 8 or isinstance(y, str) and isinstance(x, int) and x > 8):
            return
        if op == "%" and isinstance(x, str):
            return
        cases.append({"op": op, "x": e_lit(x), "y": e_lit(y), "_x": x, "_y": y})
    small = [0, 1, -1, 2, 3, 7, 63, 64, 70, -5]
    for op in ("+", "-", "*", "//", "%", "/", "&", "|", "^", "<", "==", ">="):
        for x in _INTS[::3] + [True]:
            for y in _INTS[1::4] + [False]:
                add(op, x, y)
    for op in ("<<", ">>", "**"):
        for x in _INTS[::2]:
            for y in small:
                add(op, x, y)
    for op in ("+", "-", "*", "/", "//", "%", "**", "<", "==", "!=", ">"):
        for x in _FLOATS:
            for y in _FLOATS[:9] + [0, 1, 2, 3, -1, -2, 7, 2 ** 31, 2 ** 70, True]:
                add(op, x, y)
                if not isinstance(y, float):
                    add(op, y, x)
    for op in ("+", "*", "<", "==", "!=", ">=", "-", "&"):
        for x in _STRS:
            for y in _STRS[:4] + [0, 2, 97, 1.5, True]:
                add(op, x, y)
                add(op, y, x)
    for op in ("neg", "inv", "abs", "fits64"):
        for x in _INTS + (_FLOATS if op != "fits64" else []) + [True, "a"][:1 if op == "fits64" else 2]:
            add(op, x, 0)
    ops = ["+", "-", "*", "//", "%", "/", "&", "|", "^", "<<", ">>", "<", "==", "**"]
    for _ in range(n):
        op = rng.choice(ops)
        bits = rng.choice([8, 16, 31, 32, 53, 63, 64, 70, 130])
        x = rng.randint(-2 ** bits, 2 ** bits)
        if op in ("<<", ">>"):
            y = rng.randint(0, 140)
        elif op == "**":
            x = rng.randint(-40, 40)
            y = rng.randint(0, 30)
        else:
            y = rng.randint(-2 ** rng.choice([4, 16, 31, 63, 64, 90]), 2 ** rng.choice([4, 16, 31, 63, 64, 90]))
        add(op, x, y)
    return cases


def check_arith(cases, printed):
    """-> (bad, n_decided): bad = cases where the spec's result does not accept CPython's"""
    got = {}
    for r in printed:
        got[r["i"]] = r["r"]
    bad = []
    decided = 0
    for i, c in enumerate(cases, 1):
        if i not in got:
            bad.append({"case": i, "why": "not published"})
            continue
        s = from_spec(got[i])
        p = obs_of_python(lambda: _PYOPS[c["op"]](c["_x"], c["_y"]))
        if p[0] == "v" and isinstance(p[1], complex):
            p = ("complex",)
        ok, dec = agree(s, p) if p[0] != "complex" else (s == UND, False)
        decided += bool(dec)
        if not ok:
            bad.append({"case": i, "op": c["op"], "x": repr(c["_x"]), "y": repr(c["_y"]), "spec": repr(s)[:80], "python": repr(p)[:80]})
    return bad, decided
