"""C40 helpers: value encoding shared with spec/TypeInfer.tla, the arithmetic conformance
cases, the program generator / renderer and the fact digests."""
import fractions
import math
import re

B = 10000
HUGE = 1e308


# --------------------------------------------------------------------------- values <-> spec records

def limbs(n):
    n = abs(n)
    out = []
    while n:
        out.append(n % B)
        n //= B
    return out


def e_int(n):
    return {"k": "int", "neg": n < 0, "m": limbs(n)}


def dyadic(x):
    """(n, e) with x == n / 2**e in the model's grid, else None"""
    fr = fractions.Fraction(x)
    d = fr.denominator
    if d & (d - 1):
        return None
    e = d.bit_length() - 1
    if e > 8 or abs(fr.numerator) >= 32768:
        return None
    return fr.numerator, e


def e_float(x):
    if x == HUGE:
        return {"k": "flt", "c": "huge", "n": 0, "e": 0}
    d = dyadic(x)
    if d is None or (x == 0 and math.copysign(1, x) < 0):
        raise ValueError("float literal %r outside the model grid" % (x,))
    return {"k": "flt", "c": "dy", "n": d[0], "e": d[1]}


def e_str(s):
    return {"k": "str", "s": [ord(c) for c in s]}


def e_bool(b):
    return {"k": "bool", "b": bool(b)}


def e_lit(v):
    if isinstance(v, bool):
        return e_bool(v)
    if isinstance(v, int):
        return e_int(v)
    if isinstance(v, float):
        return e_float(v)
    if isinstance(v, str):
        return e_str(v)
    raise ValueError(v)


UND = ("und",)


def from_spec(r):
    """spec value record -> ('v', python value) | ('fund',) float with undecided value | ('E', name) | ('und',)"""
    t = r["t"]
    if t == "int":
        n = 0
        for d in reversed(r["m"]):
            n = n * B + d
        return ("v", -n if r["neg"] else n)
    if t == "bool":
        return ("v", bool(r["b"]))
    if t == "float":
        if r["c"] == "und":
            return ("fund",)
        if r["c"] == "huge":
            return ("v", HUGE)
        return ("v", r["n"] / float(2 ** r["e"]))
    if t == "str":
        return ("v", "".join(chr(c) for c in r["s"]))
    if t == "tup":
        return ("t", [from_spec(x) for x in r["xs"]])
    if t == "exc":
        return ("E", r["x"])
    if t == "none":
        return ("v", None)
    return UND


def obs_of_python(fn):
    """run fn() -> the same shape as from_spec"""
    try:
        v = fn()
    except Exception as e:       # noqa
        return ("E", type(e).__name__)
    return shape(v)


def shape(v):
    if isinstance(v, tuple):
        return ("t", [shape(x) for x in v])
    return ("v", v)


def same_value(a, b):
    return type(a) is type(b) and (a == b) and (not isinstance(a, float) or math.copysign(1, a) == math.copysign(1, b))


def agree(spec, py):
    """does the spec's (possibly partly undecided) observation accept the Python observation?
    returns (ok, decided) -- decided False when the model left (part of) the value open"""
    if spec == UND:
        return True, False
    if spec[0] == "fund":
        return (py[0] == "v" and type(py[1]) is float), False
    if spec[0] == "E":
        return (py[0] == "E" and py[1] == spec[1]), True
    if spec[0] == "t":
        if py[0] != "t" or len(py[1]) != len(spec[1]):
            return False, True
        ok, dec = True, True
        for s, p in zip(spec[1], py[1]):
            o, d = agree(s, p)
            ok, dec = ok and o, dec and d
        return ok, dec
    return (py[0] == "v" and same_value(spec[1], py[1])), True


# --------------------------------------------------------------------------- arithmetic conformance

_INTS = [0, 1, -1, 2, 3, -3, 7, 10, 255, 256, 9999, 10000, 10001, -10000, 32767, 32768, 65535, 2 ** 31 - 1, 2 ** 31, -2 ** 31,
         2 ** 32 + 5, 10 ** 8, 10 ** 8 - 1, 2 ** 53, 2 ** 53 + 1, 2 ** 62, 2 ** 63 - 1, 2 ** 63, -2 ** 63, -2 ** 63 - 1, 2 ** 64,
         10 ** 20, -10 ** 20 + 7, 2 ** 70, 3 ** 50, -(2 ** 100) + 12345, 10 ** 40 + 1]
_FLOATS = [0.0, 0.5, 1.0, 1.5, 2.0, 2.5, 3.0, -0.5, -1.5, -2.0, 0.25, 100.0, 0.125, 7.75, HUGE]
_STRS = ["", "a", "ab", "abc", "b", "\0x"]
_PYOPS = {"+": lambda a, b: a + b, "-": lambda a, b: a - b, "*": lambda a, b: a * b, "//": lambda a, b: a // b,
          "%": lambda a, b: a % b, "/": lambda a, b: a / b, "**": lambda a, b: a ** b, "<<": lambda a, b: a << b,
          ">>": lambda a, b: a >> b, "&": lambda a, b: a & b, "|": lambda a, b: a | b, "^": lambda a, b: a ^ b,
          "<": lambda a, b: a < b, "<=": lambda a, b: a <= b, "==": lambda a, b: a == b, "!=": lambda a, b: a != b,
          ">": lambda a, b: a > b, ">=": lambda a, b: a >= b,
          "neg": lambda a, b: -a, "inv": lambda a, b: ~a, "abs": lambda a, b: abs(a),
          "fits64": lambda a, b: -2 ** 63 <= a < 2 ** 63}


def arith_cases(rng, n):
    """(op, x, y) cases for the PyNum conformance phase: a fixed boundary grid + n seeded random ones"""
    cases = []

    def add(op, x, y):
        if op == "**" and not (isinstance(y, (int, bool)) and -6 <= y <= 70 or isinstance(y, float)):
            return
        if op == "**" and isinstance(x, int) and isinstance(y, int) and y > 0 and abs(x) > 1 and y * math.log10(abs(x)) > 120:
            return
        if op in ("<<", ">>") and isinstance(y, int) and y > 300:
            return
        if op == "*" and (isinstance(x, str) and isinstance(y, int) and y > 8 or isinstance(y, str) and isinstance(x, int) and x > 8):
            return
        if op == "%" and isinstance(x, str):
            return
        cases.append({"op": op, "x": e_lit(x), "y": e_lit(y), "_x": x, "_y": y})
    small = [0, 1, -1, 2, 3, 7, 63, 64, 70, -5]
    for op in ("+", "-", "*", "//", "%", "/", "&", "|", "^", "<", "==", ">="):
        for x in _INTS[::3] + [True]:
            for y in _INTS[1::4] + [False]:
                add(op, x, y)
    for op in ("<<", ">>", "**"):
        for x in _INTS[::2]:
            for y in small:
                add(op, x, y)
    for op in ("+", "-", "*", "/", "//", "%", "**", "<", "==", "!=", ">"):
        for x in _FLOATS:
            for y in _FLOATS[:9] + [0, 1, 2, 3, -1, -2, 7, 2 ** 31, 2 ** 70, True]:
                add(op, x, y)
                if not isinstance(y, float):
                    add(op, y, x)
    for op in ("+", "*", "<", "==", "!=", ">=", "-", "&"):
        for x in _STRS:
            for y in _STRS[:4] + [0, 2, 97, 1.5, True]:
                add(op, x, y)
                add(op, y, x)
    for op in ("neg", "inv", "abs", "fits64"):
        for x in _INTS + (_FLOATS if op != "fits64" else []) + [True, "a"][:1 if op == "fits64" else 2]:
            add(op, x, 0)
    ops = ["+", "-", "*", "//", "%", "/", "&", "|", "^", "<<", ">>", "<", "==", "**"]
    for _ in range(n):
        op = rng.choice(ops)
        bits = rng.choice([8, 16, 31, 32, 53, 63, 64, 70, 130])
        x = rng.randint(-2 ** bits, 2 ** bits)
        if op in ("<<", ">>"):
            y = rng.randint(0, 140)
        elif op == "**":
            x = rng.randint(-40, 40)
            y = rng.randint(0, 30)
        else:
            y = rng.randint(-2 ** rng.choice([4, 16, 31, 63, 64, 90]), 2 ** rng.choice([4, 16, 31, 63, 64, 90]))
        add(op, x, y)
    return cases


def check_arith(cases, printed):
    """-> (bad, n_decided): bad = cases where the spec's result does not accept CPython's"""
    got = {}
    for r in printed:
        got[r["i"]] = r["r"]
    bad = []
    decided = 0
    for i, c in enumerate(cases, 1):
        if i not in got:
            bad.append({"case": i, "why": "not published"})
            continue
        s = from_spec(got[i])
        p = obs_of_python(lambda: _PYOPS[c["op"]](c["_x"], c["_y"]))
        if p[0] == "v" and isinstance(p[1], complex):
            p = ("complex",)
        ok, dec = agree(s, p) if p[0] != "complex" else (s == UND, False)
        decided += bool(dec)
        if not ok:
            bad.append({"case": i, "op": c["op"], "x": repr(c["_x"]), "y": repr(c["_y"]), "spec": repr(s)[:80], "python": repr(p)[:80]})
    return bad, decided


# --------------------------------------------------------------------------- program ASTs (the records of the spec)

def I(n):
    return e_int(n)


def F(x):
    return e_float(x)


def S(s):
    return e_str(s)


def N(v):
    return {"k": "name", "v": v}


def Bin(op, l, r):
    return {"k": "bin", "op": op, "l": l, "r": r}


def Un(k, e):
    return {"k": k, "e": e}


def Cond(c, a, b):
    return {"k": "cond", "c": c, "a": a, "b": b}


def BoolOp(k, a, b):
    return {"k": k, "a": a, "b": b}


def Cmp(op, l, r):
    return {"k": "cmp", "op": op, "l": l, "r": r}


def In(l, xs):
    return {"k": "in", "l": l, "xs": xs}


def MM(w, a, b):
    return {"k": "mm", "w": w, "a": a, "b": b}


def Lam(e):
    return {"k": "lam", "e": e}


def Idx(s, i):
    return {"k": "idx", "s": s, "i": i}


def Slice(s, lo, hi):
    return {"k": "slice", "s": s, "lo": lo, "hi": hi}


def Tup(xs):
    return {"k": "tup", "xs": list(xs)}


def Asg(v, e):
    return {"k": "asg", "v": v, "e": e}


def Aug(v, op, e):
    return {"k": "aug", "v": v, "op": op, "e": e}


def If(c, t, f=()):
    return {"k": "if", "c": c, "t": list(t), "f": list(f)}


def ForR(v, args, b):
    return {"k": "forr", "v": v, "args": list(args), "b": list(b)}


def ForS(v, s, b):
    return {"k": "fors", "v": v, "s": s, "b": list(b)}


def Ret(e):
    return {"k": "ret", "e": e}


def lit_value(e):
    k = e["k"]
    if k == "int":
        n = 0
        for d in reversed(e["m"]):
            n = n * B + d
        return -n if e["neg"] else n
    if k == "flt":
        return HUGE if e["c"] == "huge" else e["n"] / float(2 ** e["e"])
    if k == "str":
        return "".join(chr(c) for c in e["s"])
    if k == "bool":
        return e["b"]
    raise ValueError(e)


def rx(e):
    """expression -> Python source"""
    k = e["k"]
    if k in ("int", "flt", "str", "bool"):
        v = lit_value(e)
        if k == "int":
            return str(v) if v >= 0 else "(%d)" % v
        return repr(v)
    if k == "name":
        return e["v"]
    if k == "bin":
        return "(%s %s %s)" % (rx(e["l"]), e["op"], rx(e["r"]))
    if k == "neg":
        return "(-%s)" % rx(e["e"])
    if k == "inv":
        return "(~%s)" % rx(e["e"])
    if k == "abs":
        return "abs(%s)" % rx(e["e"])
    if k == "len":
        return "len(%s)" % rx(e["e"])
    if k == "cond":
        return "(%s if %s else %s)" % (rx(e["a"]), rx(e["c"]), rx(e["b"]))
    if k in ("or", "and"):
        return "(%s %s %s)" % (rx(e["a"]), k, rx(e["b"]))
    if k == "cmp":
        return "(%s %s %s)" % (rx(e["l"]), e["op"], rx(e["r"]))
    if k == "in":
        return "(%s in (%s,))" % (rx(e["l"]), ", ".join(rx(x) for x in e["xs"]))
    if k == "mm":
        return "%s(%s, %s)" % (e["w"], rx(e["a"]), rx(e["b"]))
    if k == "lam":
        return "(lambda: %s)()" % rx(e["e"])
    if k == "idx":
        return "%s[%s]" % (rx(e["s"]), rx(e["i"]))
    if k == "slice":
        return "%s[%s:%s]" % (rx(e["s"]), rx(e["lo"]), rx(e["hi"]))
    if k == "tup":
        return "(%s,)" % ", ".join(rx(x) for x in e["xs"])
    raise ValueError(e)


def rs(s, ind):
    p = "    " * ind
    k = s["k"]
    if k == "asg":
        return [p + "%s = %s" % (s["v"], rx(s["e"]))]
    if k == "aug":
        return [p + "%s %s= %s" % (s["v"], s["op"], rx(s["e"]))]
    if k == "if":
        out = [p + "if %s:" % rx(s["c"])] + rb(s["t"], ind + 1)
        if s["f"]:
            out += [p + "else:"] + rb(s["f"], ind + 1)
        return out
    if k == "forr":
        return [p + "for %s in range(%s):" % (s["v"], ", ".join(rx(a) for a in s["args"]))] + rb(s["b"], ind + 1)
    if k == "fors":
        return [p + "for %s in %s:" % (s["v"], rx(s["s"]))] + rb(s["b"], ind + 1)
    if k == "ret":
        return [p + "return %s" % rx(s["e"])]
    raise ValueError(s)


def rb(b, ind):
    out = []
    for s in b:
        out += rs(s, ind)
    return out or ["    " * ind + "pass"]


PARAMS = ["a", "b", "s"]


def render(fname, body):
    return "\n".join(["def %s(%s):" % (fname, ", ".join(PARAMS))] + rb(body, 1)) + "\n"


def assigned(body, acc=None):
    """names bound by the statements, in order of first binding"""
    acc = [] if acc is None else acc
    for s in body:
        if s["k"] in ("asg", "aug", "forr", "fors") and s["v"] not in acc:
            acc.append(s["v"])
        for sub in ("t", "f", "b"):
            if sub in s and isinstance(s[sub], list):
                assigned(s[sub], acc)
    return acc


# --------------------------------------------------------------------------- the systematic families

BIG31 = 2 ** 31 - 1


def shield(kind, e, alt=None):
    """wrap e in a node at which MarkOverflowingArithmetic resets its flag"""
    alt = e if alt is None else alt
    if kind == "cond":
        return Cond(Cmp(">", N("a"), I(-1)), e, alt)
    if kind == "or":
        return BoolOp("or", e, alt)
    if kind == "and":
        return BoolOp("and", alt, e)
    if kind == "max":
        return MM("max", e, I(2))
    if kind == "min":
        return MM("min", e, I(BIG31))
    if kind == "none":
        return e
    raise ValueError(kind)


def families(rng, quick):
    """[(family, body)] : the programs that aim at the decision points of the inferer"""
    out = []

    def add(fam, body):
        out.append((fam, body))

    # F1 -- a local bound on some paths only, by a value of every kind
    for name, lit in (("int", I(1)), ("flt", F(1.5)), ("str", S("q")), ("big", I(2 ** 40)), ("len", Un("len", N("s"))), ("cmp", Cmp("<", N("a"), N("b")))):
        add("unbound_" + name, [If(Cmp(">", N("a"), I(2)), [Asg("x", lit)]), Ret(N("x"))])
    add("unbound_loopvar", [ForR("i", [N("a")], [Asg("y", N("i"))]), Ret(Tup([N("i")]))])
    add("unbound_loopvar_c", [ForR("i", [I(3), Un("len", N("s"))], [Asg("y", I(0))]), Ret(Tup([N("i")]))])
    add("unbound_both", [If(Cmp(">", N("a"), I(2)), [Asg("x", I(1))], [Asg("y", F(0.5))]), Ret(Tup([N("x"), N("y")]))])
    # F2 -- one local, int on one path and float on another
    add("mix_if", [Asg("m", I(1)), If(Cmp(">", N("a"), I(2)), [Asg("m", F(2.5))]), Ret(N("m"))])
    add("mix_if2", [If(Cmp(">", N("a"), I(2)), [Asg("m", F(0.5))], [Asg("m", I(7))]), Ret(Tup([N("m"), N("a")]))])
    add("mix_acc", [Asg("m", I(0)), ForR("i", [N("a")], [Asg("m", Bin("+", N("m"), F(0.5)))]), Ret(N("m"))])
    add("mix_acc2", [Asg("m", I(0)), ForR("i", [N("a")], [Aug("m", "+", F(1.5))]), Ret(Tup([N("m"), N("i")]))])
    add("mix_div", [Asg("m", I(6)), If(Cmp(">", N("a"), I(2)), [Asg("m", Bin("/", N("b"), I(2)))]), Ret(N("m"))])
    add("mix_obj", [Asg("m", N("b")), If(Cmp(">", N("a"), I(2)), [Asg("m", F(2.5))]), Ret(N("m"))])
    add("mix_len", [Asg("m", Un("len", N("s"))), If(Cmp(">", N("a"), I(2)), [Asg("m", F(2.0))]), Ret(N("m"))])
    add("mix_bool_int", [Asg("p", Cmp("<", N("a"), I(3))), If(Cmp(">", N("a"), I(1)), [Asg("p", I(5))]), Ret(N("p"))])
    add("mix_boollit_int", [Asg("p", e_bool(True)), If(Cmp(">", N("a"), I(2)), [Asg("p", I(5))]), Ret(N("p"))])
    add("mix_boollit_flt", [Asg("p", e_bool(True)), If(Cmp(">", N("a"), I(2)), [Asg("p", F(0.5))]), Ret(N("p"))])
    add("bool_lits", [Asg("p", e_bool(True)), Asg("q", e_bool(False)), If(Cmp(">", N("a"), I(2)), [Asg("p", e_bool(False))]), Ret(Tup([N("p"), N("q"), BoolOp("or", N("q"), N("p"))]))])
    add("mix_int_str", [Asg("x", I(5)), If(Cmp(">", N("a"), I(2)), [Asg("x", S("five"))]), Ret(N("x"))])
    add("mix_flt_str", [Asg("u", F(0.5)), If(Cmp(">", N("a"), I(2)), [Asg("u", S("half"))]), Ret(N("u"))])
    # F3 -- C integers reaching arithmetic through a node that resets the might_overflow flag
    srcs = {"lit": lambda: [Asg("x", I(BIG31))], "len": lambda: [Asg("x", Bin("|", Un("len", N("s")), I(BIG31)))],
            "loop": lambda: [Asg("x", I(0)), ForR("i", [I(0), I(2 ** 30 - 1), I(2 ** 29)], [Asg("x", N("i"))]), Asg("x", Bin("|", N("x"), I(BIG31)))]}
    shields = ["cond", "or", "and", "max", "min", "none"]
    ops = ["mul3", "add", "shl", "shl_count", "pow3", "pow_var", "neg_chain", "truediv", "sub", "floordiv", "and_mul"]
    for sk in shields:
        for op in ops:
            for src in (["lit", "len", "loop"] if (op == "mul3" or not quick) else ["lit"]):
                x = lambda: shield(sk, N("x"))          # noqa: E731
                if op == "mul3":
                    e = Bin("*", Bin("*", x(), x()), x())
                elif op == "add":
                    e = Bin("+", Bin("*", Bin("*", x(), I(BIG31)), I(4)), x())
                elif op == "shl":
                    e = Bin("<<", x(), I(40))
                elif op == "shl_count":
                    e = Bin("<<", I(1), Bin("&", x(), I(127)))
                elif op == "pow3":
                    e = Bin("**", x(), I(3))
                elif op == "pow_var":
                    e = Bin("**", x(), shield(sk, N("y")))
                elif op == "neg_chain":
                    e = Bin("*", Un("neg", x()), Bin("*", x(), Un("abs", x())))
                elif op == "truediv":
                    e = Bin("/", Bin("*", x(), x()), shield(sk, N("y")))
                elif op == "sub":
                    e = Bin("-", Bin("*", Bin("*", Un("neg", x()), I(BIG31)), I(4)), x())
                elif op == "floordiv":
                    e = Bin("//", Bin("*", x(), x()), shield(sk, N("y")))
                else:
                    e = Bin("*", Bin("&", x(), I(0xFFFFFF)), Bin("*", x(), x()))
                pre = srcs[src]() + [Asg("y", I(2))]
                add("arith_%s_%s_%s" % (sk, op, src), pre + [Asg("z", e), Ret(Tup([N("z")]))])
    for sk in shields:        # the same in a loop: the classic accumulator
        add("accum_%s" % sk, [Asg("x", I(1)), Asg("t", I(1)), ForR("i", [N("a")], [Asg("t", Bin("*", shield(sk, N("t")), I(2))), Asg("x", Bin("+", N("x"), N("x")))]),
                              Ret(Tup([N("t"), N("x")]))])
    # F4 -- the arithmetic sits in a lambda: the mark goes to the inner entry
    for sk in ("none", "cond"):
        for src in ("lit", "len"):
            x = lambda: shield(sk, N("x"))          # noqa: E731
            add("closure_%s_%s" % (sk, src), srcs[src]() + [Ret(Lam(Bin("*", Bin("*", x(), x()), x())))])
    add("closure_shift", [Asg("x", I(70)), Ret(Lam(Bin("<<", I(1), N("x"))))])
    add("closure_pow", [Asg("x", I(7)), Asg("y", I(30)), Ret(Lam(Bin("**", N("x"), N("y"))))])
    add("closure_obj", [Asg("x", N("b")), Ret(Lam(Bin("*", Bin("*", N("x"), N("x")), N("x"))))])
    add("closure_marked_outside", [Asg("x", I(BIG31)), Asg("y", Bin("+", N("x"), I(1))), Ret(Tup([N("y"), Lam(Bin("*", Bin("*", N("x"), N("x")), N("x")))]))])
    # F5 -- C double **
    for base in (F(HUGE), F(0.0), F(0.5), F(2.0)):
        for ex in (2, 3, -1, -2, 0, 1):
            add("dpow_%s_%d" % (lit_value(base), ex), [Asg("u", base), If(Cmp(">", N("a"), I(60)), [Asg("u", F(1.5))]), Ret(Bin("**", N("u"), I(ex)))])
    add("dpow_obj", [Asg("u", N("b")), Ret(Bin("**", N("u"), I(2)))])
    add("dpow_loop", [Asg("u", F(2.0)), ForR("i", [N("a")], [Asg("u", Bin("*", N("u"), F(2.0)))]), Ret(Bin("**", N("u"), I(-1)))])
    # F5b -- a local inferred as Python int object (marked C integer) raised to a negative power
    add("pyint_pow_mulf", [Asg("x", I(2)), Asg("w", Bin("*", Bin("**", N("x"), I(-1)), F(2.0))), Ret(N("w"))])
    add("pyint_pow_add", [Asg("x", I(2)), Asg("w", Bin("+", Bin("**", N("x"), I(-2)), I(1))), Ret(Tup([N("w"), N("x")]))])
    add("pyint_pow_var", [Asg("x", I(2)), Asg("y", Bin("-", I(1), N("a"))), Ret(Tup([Bin("**", N("x"), N("y"))]))])
    add("pyint_pow_pos", [Asg("x", I(3)), Asg("w", Bin("*", Bin("**", N("x"), I(3)), F(0.5))), Ret(N("w"))])
    # F6 -- Py_UCS4 locals compared with numbers
    for cmpop in ("==", "<", "!=", ">="):
        add("uchar_for_%s" % cmpop, [Asg("t", S("abc")), Asg("n", I(0)), ForS("c", N("t"), [If(Cmp(cmpop, N("c"), I(98)), [Asg("n", Bin("|", N("n"), I(1)))])]), Ret(N("n"))])
        add("uchar_idx_%s" % cmpop, [Asg("t", S("abc")), Asg("c", Idx(N("t"), I(1))), Ret(Cmp(cmpop, N("c"), I(98)))])
    add("uchar_in", [Asg("t", S("abc")), Asg("n", I(0)), ForS("c", N("t"), [If(In(N("c"), [I(97), I(99)]), [Asg("n", Bin("|", N("n"), I(2)))])]), Ret(N("n"))])
    add("uchar_in_str", [Asg("t", S("abc")), Asg("n", I(0)), ForS("c", N("t"), [If(In(N("c"), [S("a"), S("c")]), [Asg("n", Bin("|", N("n"), I(2)))])]), Ret(N("n"))])
    add("uchar_eq_str", [Asg("t", S("abc")), Asg("n", I(0)), ForS("c", N("t"), [If(Cmp("==", N("c"), S("b")), [Asg("n", Bin("|", N("n"), I(4)))])]), Ret(Tup([N("n"), N("c")]))])
    add("uchar_param", [Asg("n", I(0)), ForS("c", N("s"), [If(Cmp("==", N("c"), I(97)), [Asg("n", Bin("|", N("n"), I(1)))])]), Ret(N("n"))])
    add("uchar_arith", [Asg("t", S("abc")), Asg("r", S("")), ForS("c", N("t"), [Asg("r", Bin("+", N("c"), N("r")))]), Ret(Tup([N("r"), N("c")]))])
    add("uchar_shield_add", [Asg("t", S("abc")), Asg("c", Idx(N("t"), I(0))), Ret(Bin("+", shield("cond", N("c")), I(1)))])
    # F7 -- one local, a character on one path and an int on another
    add("uchar_int_span", [Asg("t", S("abc")), Asg("c", Idx(N("t"), I(0))), If(Cmp(">", N("a"), I(2)), [Asg("c", I(5))]), Ret(N("c"))])
    add("uchar_int_span_for", [Asg("t", S("abc")), Asg("c", I(7)), ForS("c", N("t"), [Asg("y", I(0))]), Ret(Tup([N("c")]))])
    add("uchar_flt_span", [Asg("t", S("abc")), Asg("c", Idx(N("t"), I(0))), If(Cmp(">", N("a"), I(2)), [Asg("c", F(0.5))]), Ret(N("c"))])
    add("uchar_str_span", [Asg("t", S("abc")), Asg("c", Idx(N("t"), I(0))), If(Cmp(">", N("a"), I(2)), [Asg("c", S("xy"))]), Ret(N("c"))])
    # F8 -- str-typed locals sliced / indexed with arbitrary Python ints
    add("slice_hi", [Asg("t", S("abcdef")), Ret(Slice(N("t"), I(1), N("b")))])
    add("slice_lo", [Asg("t", S("abcdef")), Ret(Slice(N("t"), N("b"), I(4)))])
    add("slice_both_c", [Asg("t", S("abcdef")), Asg("x", I(1)), Asg("y", I(4)), Ret(Slice(N("t"), N("x"), N("y")))])
    add("slice_param", [Ret(Slice(N("s"), I(0), N("b")))])
    add("index_obj", [Asg("t", S("abcdef")), Ret(Idx(N("t"), N("b")))])
    add("index_c", [Asg("t", S("abcdef")), Asg("x", I(7)), If(Cmp(">", N("a"), I(2)), [Asg("x", I(-2))]), Ret(Idx(N("t"), N("x")))])
    add("str_concat_loop", [Asg("t", S("")), ForR("i", [Bin("&", N("a"), I(3))], [Asg("t", Bin("+", N("t"), S("ab")))]), Ret(Tup([N("t"), Un("len", N("t"))]))])
    add("str_repeat", [Asg("t", S("ab")), Asg("x", I(3)), Ret(Bin("*", N("t"), N("x")))])
    # F9 -- loops that grow integers past 2^31 and 2^63 (inference must step aside)
    for name, stmt in (("mul", Asg("x", Bin("*", N("x"), I(2)))), ("augmul", Aug("x", "*", I(3))), ("add", Asg("x", Bin("+", N("x"), N("x")))),
                       ("shl", Aug("x", "<<", I(1))), ("shl2", Asg("x", Bin("<<", N("x"), I(1)))), ("sub", Asg("x", Bin("-", N("x"), Bin("*", N("x"), I(3))))),
                       ("neg", Asg("x", Un("neg", Bin("*", N("x"), I(2))))), ("orshift", Asg("x", Bin("|", N("x"), Bin("<<", I(1), N("i"))))),
                       ("addi", Asg("x", Bin("+", Bin("*", N("x"), I(7)), N("i")))), ("augadd_big", Aug("x", "+", I(2 ** 62)))):
        add("grow_" + name, [Asg("x", I(1)), ForR("i", [N("a")], [stmt]), Ret(Tup([N("x"), N("i")]))])
    add("grow_two", [Asg("x", I(1)), Asg("y", I(BIG31)), ForR("i", [N("a")], [Asg("y", Bin("+", N("y"), N("x"))), Asg("x", Bin("*", N("x"), I(2)))]), Ret(Tup([N("x"), N("y")]))])
    add("grow_copy", [Asg("x", I(1)), ForR("i", [N("a")], [Asg("y", N("x")), Asg("x", Bin("*", N("y"), I(2)))]), Ret(Tup([N("x")]))])
    add("grow_biglit", [Asg("x", I(2 ** 31)), Asg("y", I(-2 ** 31)), Asg("z", I(-2 ** 31 - 1)), Ret(Tup([N("x"), N("y"), N("z"), Bin("*", N("y"), N("y"))]))])
    add("grow_abs", [Asg("x", I(-2 ** 31)), ForR("i", [Bin("&", N("a"), I(3))], [Asg("x", Un("abs", Bin("*", N("x"), N("x"))))]), Ret(N("x"))])
    add("neg_min", [Asg("x", I(-2 ** 31)), Asg("z", Bin("<<", shield("or", N("x")), I(32))), Asg("w", Un("neg", N("z"))), Ret(Tup([N("w"), N("z")]))])
    add("abs_min", [Asg("x", I(-2 ** 31)), Asg("z", Bin("<<", shield("or", N("x")), I(32))), Ret(Tup([Un("abs", N("z")), N("z")]))])
    # F10 -- len() / range counters
    add("count_len", [Asg("n", Un("len", N("s"))), Asg("t", I(0)), ForR("i", [N("n")], [Asg("t", Bin("+", N("t"), Bin("*", N("i"), N("i"))))]), Ret(Tup([N("n"), N("t")]))])
    add("count_range3", [Asg("t", I(0)), ForR("i", [I(5), N("a"), I(7)], [Asg("t", Bin("+", N("t"), N("i")))]), Ret(Tup([N("t"), N("i")]))])
    add("count_down", [Asg("t", I(0)), ForR("i", [N("a"), I(0), I(-3)], [Asg("t", Bin("^", N("t"), N("i")))]), Ret(Tup([N("t"), N("i")]))])
    add("count_reassign", [Asg("t", I(0)), ForR("i", [I(4)], [Asg("t", Bin("|", N("t"), N("i"))), Asg("i", I(9))]), Ret(Tup([N("t"), N("i")]))])
    add("count_nested", [Asg("t", I(0)), ForR("i", [Bin("&", N("a"), I(7))], [ForR("j", [N("i")], [Aug("t", "+", Bin("*", N("i"), N("j")))])]), Ret(N("t"))])
    add("count_bigbound", [Asg("t", I(0)), ForR("i", [I(2 ** 62), Bin("+", I(2 ** 62), Bin("&", N("a"), I(3)))], [Asg("t", N("i"))]), Ret(N("t"))])
    add("count_len_mul", [Asg("n", Un("len", N("s"))), Ret(Bin("*", Bin("*", Bin("*", N("n"), I(BIG31)), I(BIG31)), I(16)))])
    # F11 -- division and mixing
    add("div_int", [Asg("x", I(7)), Asg("y", Bin("-", N("a"), I(2))), Ret(Tup([Bin("/", N("x"), I(2)), Bin("//", N("x"), I(-2)), Bin("%", N("x"), I(-3))]))])
    add("div_zero", [Asg("x", I(7)), Asg("y", I(0)), If(Cmp(">", N("a"), I(2)), [Asg("y", I(2))]), Ret(Bin("//", shield("or", N("x")), shield("cond", N("y"))))])
    add("div_zero_mod", [Asg("x", I(7)), Asg("y", I(0)), If(Cmp(">", N("a"), I(2)), [Asg("y", I(-2))]), Ret(Bin("%", shield("or", N("x")), shield("cond", N("y"))))])
    add("div_zero_true", [Asg("x", I(7)), Asg("y", I(0)), If(Cmp(">", N("a"), I(2)), [Asg("y", I(4))]), Ret(Bin("/", shield("or", N("x")), shield("cond", N("y"))))])
    add("div_flt", [Asg("u", F(7.5)), Asg("w", F(0.0)), If(Cmp(">", N("a"), I(2)), [Asg("w", F(-2.0))]), Ret(Tup([Bin("*", N("u"), I(2)), Bin("//", N("u"), N("w"))]))])
    add("div_flt_mod", [Asg("u", F(7.5)), Asg("w", F(0.0)), If(Cmp(">", N("a"), I(2)), [Asg("w", F(2.0))]), Ret(Bin("%", N("u"), N("w")))])
    add("flt_acc", [Asg("u", F(0.0)), ForR("i", [N("a")], [Asg("u", Bin("+", N("u"), Bin("*", N("i"), F(0.5))))]), Ret(Tup([N("u"), Bin("/", N("u"), I(4))]))])
    add("flt_int_mix", [Asg("x", I(3)), Asg("u", F(0.5)), Ret(Tup([Bin("+", N("x"), N("u")), Bin("*", N("x"), N("u")), Bin("-", N("u"), N("x")), Bin("/", N("x"), N("u"))]))])
    add("flt_cmp_big", [Asg("x", I(BIG31)), Asg("u", F(2.0)), Ret(Tup([Cmp("<", Bin("*", shield("or", N("x")), shield("or", N("x"))), N("u")), Cmp("==", N("x"), N("u"))]))])
    # F12 -- bools
    add("bool_ret", [Asg("p", Cmp("<", N("a"), N("b"))), Asg("q", Cmp("<", I(3), Un("len", N("s")))), Ret(Tup([N("p"), N("q"), BoolOp("and", N("p"), N("q"))]))])
    add("bool_c", [Asg("x", I(3)), Asg("p", Cmp("<", shield("or", N("x")), I(5))), If(N("p"), [Asg("x", I(4))]), Ret(Tup([N("p"), N("x")]))])
    return out


# --------------------------------------------------------------------------- seeded random programs

class RandGen(object):
    IV = ["x", "y", "z"]
    FV = ["u", "w"]
    INTS = [0, 1, 2, 3, 7, 10, 255, 1000, 65536, BIG31, 2 ** 31, 2 ** 62, 2 ** 63 - 1]
    FLOATS = [0.0, 0.5, 1.5, 2.0, 2.5, 3.0, -0.5, HUGE]

    def __init__(self, rng):
        self.rng = rng

    def ch(self, xs):
        return self.rng.choice(xs)

    def iatom(self, names, loop):
        r = self.rng.random()
        iv = [n for n in names if n in self.IV or n in ("a", "b", "i", "j")]
        if r < 0.5 and iv:
            return N(self.ch(iv))
        if r < 0.9:
            v = self.ch(self.INTS)
            return I(-v if self.rng.random() < 0.15 else v)
        return Un("len", N("s"))

    def iexpr(self, d, names, loop):
        r = self.rng.random()
        if d <= 0 or r < 0.22:
            return self.iatom(names, loop)
        if r < 0.62:
            op = self.ch(["+", "-", "*", "*", "//", "%", "<<", ">>", "&", "|", "^", "**"])
            l = self.iexpr(d - 1, names, loop)
            if op in ("<<", ">>"):
                rr = I(self.ch([1, 2, 3] if loop else [1, 3, 31, 40, 62]))
            elif op == "**":
                if loop:
                    op, rr = "*", I(3)
                else:
                    rr = I(self.ch([2, 3]))
            elif op == "*" and loop:
                rr = I(self.ch([2, 3, 10]))
            else:
                rr = self.iexpr(d - 1, names, loop)
            if l["k"] == "int" and rr["k"] == "int":
                l = N(self.ch(["a", "b"]))
            return Bin(op, l, rr)
        if r < 0.72:
            return Cond(self.cond(names, loop), self.iexpr(d - 1, names, loop), self.iexpr(d - 1, names, loop))
        if r < 0.79:
            first = self.iexpr(d - 1, names, loop)
            if first["k"] == "int":
                first = N(self.ch(["a", "b"]))
            return BoolOp(self.ch(["or", "and"]), first, self.iexpr(d - 1, names, loop))
        if r < 0.88:
            e = self.iexpr(d - 1, names, loop)
            if e["k"] == "int":
                e = N("b")
            return Un(self.ch(["neg", "inv", "abs"]), e)
        if r < 0.95:
            return MM(self.ch(["min", "max"]), self.iexpr(d - 1, names, loop), self.iexpr(d - 1, names, loop))
        return Lam(self.iexpr(d - 1, [n for n in names if n not in ("i", "j")], loop))

    def fexpr(self, d, names, loop, allow_m=True):
        r = self.rng.random()
        fv = [n for n in names if n in self.FV or (n == "m" and allow_m)]
        if d <= 0 or r < 0.3:
            if fv and self.rng.random() < 0.55:
                return N(self.ch(fv))
            return F(self.ch(self.FLOATS))
        if r < 0.75:
            op = self.ch(["+", "-", "*", "/", "//", "%", "**"])
            l = self.fexpr(d - 1, names, loop) if self.rng.random() < 0.7 else self.iexpr(d - 1, names, loop)
            if op == "**":
                if l["k"] in ("flt", "int"):
                    l = N(self.ch(fv)) if fv else N("b")
                return Bin("**", l, I(self.ch([2, 3, -1, 2, 0])))
            rr = self.fexpr(d - 1, names, loop) if self.rng.random() < 0.6 else self.iexpr(d - 1, names, loop)
            if l["k"] in ("flt", "int") and rr["k"] in ("flt", "int"):
                rr = N(self.ch(fv)) if fv else N("a")
            return Bin(op, l, rr)
        if r < 0.85:
            return Cond(self.cond(names, loop), self.fexpr(d - 1, names, loop, False), self.fexpr(d - 1, names, loop, False))
        e = self.fexpr(d - 1, names, loop, allow_m)
        if e["k"] == "flt":
            e = N(self.ch(fv)) if fv else N("b")
        return Un(self.ch(["neg", "abs"]), e)

    def cond(self, names, loop):
        iv = [n for n in names if n in self.IV or n in ("a", "b", "i", "j")]
        return Cmp(self.ch(["<", ">", "==", "!=", "<=", ">="]), N(self.ch(iv)), self.iatom(names, loop))

    def block(self, depth, names, nst, loop):
        out = []
        for _ in range(nst):
            r = self.rng.random()
            if r < 0.5 or depth <= 0:
                v = self.ch(self.IV + self.IV + self.FV + ["m"])
                if v in self.IV:
                    e = self.iexpr(2, names, loop)
                elif v in self.FV:
                    e = self.fexpr(2, names, loop)
                else:
                    e = self.iexpr(1, names, loop) if self.rng.random() < 0.5 else self.fexpr(1, names, loop)
                out.append(Asg(v, e))
                if v not in names:
                    names.append(v)
            elif r < 0.62:
                cands = [n for n in names if n in self.IV + self.FV]
                if not cands:
                    continue
                v = self.ch(cands)
                if v in self.IV:
                    out.append(Aug(v, self.ch(["+", "*", "-", "|", "<<"]), self.ch([I(1), I(2), I(3)]) if loop else self.iexpr(1, names, loop)))
                    if out[-1]["op"] == "<<" and not loop:
                        out[-1]["e"] = I(self.ch([1, 5, 33]))
                else:
                    out.append(Aug(v, self.ch(["+", "*", "-"]), self.fexpr(1, names, loop)))
            elif r < 0.8:
                c = self.cond(names, loop)
                t = self.block(depth - 1, names, self.rng.randint(1, 2), loop)
                f = self.block(depth - 1, names, self.rng.randint(1, 2), loop) if self.rng.random() < 0.5 else []
                out.append(If(c, t, f))
            else:
                it = "j" if loop else "i"
                if loop:
                    args = [I(self.ch([2, 3]))]
                else:
                    args = self.ch([[N("a")], [I(3)], [I(1), N("a")], [I(0), I(70), I(7)], [Un("len", N("s"))], [N("a"), I(0), I(-9)]])
                body = self.block(depth - 1, names + ([it] if it not in names else []), self.rng.randint(1, 2), True)
                out.append(ForR(it, args, body))
                if it not in names:
                    names.append(it)
        return out

    def program(self):
        names = ["a", "b"]
        body = [Asg("x", self.iexpr(1, names, False))]
        names.append("x")
        if self.rng.random() < 0.85:
            body += [Asg("y", I(self.ch([0, 1, 5]))), Asg("u", F(self.ch([0.5, 2.0]))), Asg("m", I(1))]
            names += ["y", "u", "m"]
        body += self.block(2, names, self.rng.randint(2, 4), False)
        rets = [n for n in assigned(body) if n not in ("i", "j")]
        body.append(Ret(Tup([N(n) for n in rets])))
        return body


def inputs_for(rng, body_src, n):
    """argument vectors (a small int, an arbitrary int, a str)"""
    A = [0, 1, 3, 5, 64, 70]
    Bs = [0, 1, -3, 5, 2, BIG31, 2 ** 31, -2 ** 63, 2 ** 63, 2 ** 70 + 1, -2 ** 70]
    Ss = ["", "a", "abc", "abcdefghij"]
    fixed = [(0, 1, ""), (3, 5, "abc"), (70, 2 ** 70 + 1, "abcdefghij"), (5, -3, "a")]
    out = list(fixed[:n])
    while len(out) < n:
        t = (rng.choice(A), rng.choice(Bs), rng.choice(Ss))
        if t not in out:
            out.append(t)
    return out


# --------------------------------------------------------------------------- facts -> the spec's type classes

def type_class(ent):
    if ent["pyobject"]:
        return {"str": "S", "int": "I"}.get(ent.get("builtin"), "O")
    if ent["is_bint"]:
        return "B"
    if ent["is_uchar"]:
        return "U"
    if ent["is_float"]:
        return "D"
    if ent["is_int"]:
        return "L"
    if "complex" in ent["tname"]:
        return "X"
    return "?" + ent["tname"]


def digest_facts(facts, modname, fname, locals_):
    """-> (ty, mk, lmk) for one function, or None when the scope is missing"""
    scopes = facts["scopes"]
    key = "%s.%s" % (modname, fname)
    if key not in scopes:
        return None
    sc = scopes[key]
    ty = {}
    for v in locals_:
        ty[v] = type_class(sc[v]) if v in sc else "O"
    mk = sorted(v for v in locals_ if v in sc and sc[v]["might_overflow"])
    lmk = set()
    for k, d in scopes.items():
        if k.startswith(key + ".") and "lambda" in k:
            for v, ent in d.items():
                if ent["might_overflow"] and v in locals_:
                    lmk.add(v)
    return ty, mk, sorted(lmk)
