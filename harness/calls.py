"""Generic replay of (function, arguments) call tables on a compiled module in
child processes, robust against crashes of the code under test.

calls: list of [funcname, args]            (args JSON-able; see `decode`)
returns: list of observations, one per call:
   int/str/bool/None/float-as-["f", hex]  for plain values (see `encode`)
   "E:<ExceptionTypeName>"                 for Python exceptions
   "CRASH:<signal>" / "TIMEOUT"            when the child died in that call
Argument encoding (so that JSON can carry everything we need):
   {"big": "123..."} -> int ; {"f": "0x1.8p+1"|"nan"|"inf"|"-inf"} -> float ;
   {"b": [..]} -> bytes ; {"ba": [..]} -> bytearray ; {"t": [...]} -> tuple ;
   {"c": [re, im]} (each a float encoding) -> complex ; {"py": "expr"} -> eval(expr) in the
   driver namespace (which contains the module's globals and helper classes) ;
   lists -> lists, dicts {"d": [[k, v], ...]} -> dict ; everything else as is.
"""
import json
import os

import core

_DRIVER = r'''
import json, sys, os, math, importlib, signal, faulthandler
sys.setrecursionlimit(10000)
moddir, modname, infile, outfile, start = sys.argv[1], sys.argv[2], sys.argv[3], sys.argv[4], int(sys.argv[5])
sys.path.insert(0, moddir)
mod = importlib.import_module(modname)
if not mod.__file__.endswith(".so"):
    print("@@" + json.dumps({"fatal": "not an extension: %s" % mod.__file__})); sys.exit(3)
ns = dict(vars(mod))
prelude = os.path.join(moddir, modname + "_prelude.py")
if os.path.exists(prelude):
    exec(compile(open(prelude).read(), prelude, "exec"), ns)

def dec(x):
    if isinstance(x, dict):
        if "big" in x: return int(x["big"])
        if "f" in x:
            s = x["f"]
            return float(s) if s in ("nan", "inf", "-inf") else float.fromhex(s)
        if "b" in x: return bytes(x["b"])
        if "ba" in x: return bytearray(x["ba"])
        if "t" in x: return tuple(dec(v) for v in x["t"])
        if "c" in x: return complex(dec(x["c"][0]), dec(x["c"][1]))
        if "py" in x: return eval(x["py"], ns)
        if "d" in x: return {dec(k): dec(v) for k, v in x["d"]}
        if "s" in x: return set(dec(v) for v in x["s"])
        raise ValueError(x)
    if isinstance(x, list): return [dec(v) for v in x]
    return x

def enc(v):
    if v is None or isinstance(v, (bool, str)): return [type(v).__name__, v] if isinstance(v, bool) else v
    if type(v) is int: return v if abs(v) < 2**53 else {"big": str(v)}
    if type(v) is float:
        return ["f", "nan" if v != v else ("inf" if v == math.inf else "-inf" if v == -math.inf else v.hex())]
    if type(v) is complex: return ["c", enc(v.real), enc(v.imag)]
    if type(v) is bytes: return ["b", list(v)]
    if type(v) is bytearray: return ["ba", list(v)]
    if type(v) is tuple: return ["t"] + [enc(x) for x in v]
    if type(v) is list: return ["l"] + [enc(x) for x in v]
    if type(v) is dict: return ["d"] + [[enc(k), enc(x)] for k, x in v.items()]
    if type(v) in (set, frozenset): return [type(v).__name__] + sorted((enc(x) for x in v), key=repr)
    return ["o", type(v).__name__, repr(v)[:200]]

calls = json.load(open(infile))
out = open(outfile, "a")
buf = []
for i in range(start, len(calls)):
    fn, args = calls[i][0], calls[i][1]
    risky = len(calls[i]) > 2 and calls[i][2]
    if risky or len(buf) >= 500:
        out.write("".join(buf)); out.flush(); buf = []
    try:
        a = [dec(x) for x in args]
        r = enc(ns[fn](*a))
    except BaseException as e:
        r = "E:" + type(e).__name__
    buf.append(json.dumps([i, r]) + "\n")
out.write("".join(buf)); out.flush(); out.close()
print("@@" + json.dumps({"done": len(calls)}))
'''


def fenc(x):
    """float -> argument encoding"""
    import math
    if x != x:
        return {"f": "nan"}
    if x in (math.inf, -math.inf):
        return {"f": "inf" if x > 0 else "-inf"}
    return {"f": float(x).hex()}


def ienc(n):
    return n if abs(n) < 2 ** 53 else {"big": str(n)}


def obs_int(n):
    """how the driver reports a Python int result"""
    return n if abs(n) < 2 ** 53 else {"big": str(n)}


def run_calls(build, calls, prelude=None, timeout=600, mem_mb=4096, env=None, preload=None, tag="calls"):
    """build: BuildResult (ok) ; calls: list of [func, args] or [func, args, risky]."""
    moddir = os.path.dirname(build.so)
    modname = build.name
    if prelude:
        with open(os.path.join(moddir, modname + "_prelude.py"), "w") as f:
            f.write(prelude)
    inf = os.path.join(moddir, tag + "_in.json")
    outf = os.path.join(moddir, tag + "_out.ndjson")
    with open(inf, "w") as f:
        json.dump(calls, f)
    if os.path.exists(outf):
        os.unlink(outf)
    obs = [None] * len(calls)
    start = 0
    crashes = 0
    while start < len(calls):
        ch = core.run_child(_DRIVER, [moddir, modname, inf, outf, str(start)], timeout=timeout, mem_mb=mem_mb,
                            env=env, preload=preload)
        done = -1
        if os.path.exists(outf):
            with open(outf) as f:
                for line in f:
                    try:
                        i, r = json.loads(line)
                    except ValueError:
                        continue
                    obs[i] = r
                    done = max(done, i)
        fatal = [j for j in ch.json_lines() if "fatal" in j]
        if fatal:
            core.die("driver: %s" % fatal[0]["fatal"])
        if ch.rc == 0 and ch.json_lines():
            break
        # child died: the first call without an observation is the culprit
        nxt = start
        while nxt < len(calls) and obs[nxt] is not None:
            nxt += 1
        if nxt >= len(calls):
            break
        if ch.timed_out:
            obs[nxt] = "TIMEOUT"
        elif ch.crashed:
            obs[nxt] = "CRASH:%d" % ch.signal
        else:
            obs[nxt] = "CRASH:exit%s:%s" % (ch.rc, ch.err[-300:])
        core.CRASH_LOGS.append({"module": modname, "call": calls[nxt][:2], "obs": obs[nxt], "stderr": ch.err[-3000:]})
        crashes += 1
        if crashes > 200:
            core.die("too many crashes in run_calls")
        start = nxt + 1
    return obs
