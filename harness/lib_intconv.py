"""C05 helpers: the generated conversion module, real types, object realisations, oracles."""
import decimal
import fractions
import operator

#        tag        C type in Cython        path    to_py
TYPES = [
    ("schar", "signed char", "gen", "cint"), ("uchar", "unsigned char", "gen", "cint"), ("char", "char", "gen", "cint"),
    ("short", "short", "gen", "cint"), ("ushort", "unsigned short", "gen", "cint"),
    ("int", "int", "gen", "cint"), ("uint", "unsigned int", "gen", "cint"),
    ("long", "long", "gen", "cint"), ("ulong", "unsigned long", "gen", "cint"),
    ("llong", "long long", "gen", "cint"), ("ullong", "unsigned long long", "gen", "cint"),
    ("size", "size_t", "gen", "cint"), ("ptrdiff", "ptrdiff_t", "gen", "cint"),
    ("i128", "int128", "gen", "cint"), ("u128", "uint128", "gen", "cint"),
    ("cenum_u", "CE", "gen", "cint"), ("cenum_s", "CEN", "gen", "cint"),
    ("pyenum_u", "PE", "gen", "cpdef-enum"), ("pyenum_s", "PEN", "gen", "cpdef-enum"),
    ("pyssize", "Py_ssize_t", "ssz", "cint"), ("pyhash", "Py_hash_t", "ssz", "cint"),
    ("ssize", "ssize_t", "cssz", "cint"),
]
FROM_PY = {"gen": "CIntFromPy", "ssz": "PyIndex_AsSsize_t", "cssz": "PyLong_AsSsize_t"}

HEADER = r'''# cython: language_level=3
from libc.string cimport memcpy, memset
cdef extern from *:
    """
    typedef __int128 pyx_int128;
    typedef unsigned __int128 pyx_uint128;
    """
    ctypedef long long int128 "pyx_int128"
    ctypedef unsigned long long uint128 "pyx_uint128"
cdef enum CE:
    CE_A = 1
    CE_B = 2
cdef enum CEN:
    CEN_A = -1
    CEN_B = 2
cpdef enum PE:
    PE_A = 1
    PE_B = 2
cpdef enum PEN:
    PEN_A = -1
    PEN_B = 2
'''


def gen_source():
    src = [HEADER]
    info = []
    for tag, ct, path, topy in TYPES:
        src.append("def conv_%s(%s x):\n    return x\n" % (tag, ct))
        src.append("def convo_%s(o):\n    cdef %s x = o\n    return x\n" % (tag, ct))
        # C -> Python only: the C value is assembled from raw bytes (native little endian)
        src.append("def topy_%s(bytes b):\n    cdef %s x\n    memset(&x, 0, sizeof(x))\n    memcpy(&x, <char*>b, min(<size_t>len(b), sizeof(x)))\n    return x\n" % (tag, ct))
        info.append("    r[%r] = [sizeof(%s), (<%s>-1) > (<%s>0)]" % (tag, ct, ct, ct))
    src.append("def info():\n    r = {}\n" + "\n".join(info) + "\n    return r\n")
    return "\n".join(src)


PRELUDE = r'''
import decimal, fractions, enum
class IdxOnly:
    def __init__(s, v): s.v = v
    def __index__(s): return s.v
class IntOnly:
    def __init__(s, v): s.v = v
    def __int__(s): return s.v
class Both:
    def __init__(s, i, n): s.i = i; s.n = n
    def __index__(s): return s.i
    def __int__(s): return s.n
class MyInt(int): pass
class MyIntOv(int):
    # an int of value v whose conversion hooks lie: C integer conversion must use the value itself
    def __int__(s): return int.__int__(s) + 1
    def __index__(s): return int.__int__(s) + 2
class SStr(str): pass
class SBytes(bytes): pass
def _plain(r):
    # result of a conversion function: a plain int, or (cpdef enum) an enum member reported by class name and value
    if type(r) is int: return r
    if isinstance(r, enum.Enum): return [type(r).__name__, int(r)]
    return ["unexpected", type(r).__name__, repr(r)[:80]]
def info_():
    return [[k, v[0], bool(v[1])] for k, v in sorted(info().items())]
'''


def wrappers():
    """prelude functions wrapping every conversion function so that results are normalised in the child"""
    out = []
    for tag, ct, path, topy in TYPES:
        for f in ("conv", "convo", "topy"):
            out.append("def w_%s_%s(a):\n    return _plain(%s_%s(a))\n" % (f, tag, f, tag))
    return "\n".join(out)


def harness_namespace():
    ns = {}
    exec(PRELUDE, ns)
    return ns


# ---------------------------------------------------------------------------
# oracles

def reference_rule(kind, v, lo, hi):
    """The spec's Ref evaluated with Python integers: kind is the *model* kind of the object."""
    if kind in ("pylong", "sublong_ov", "index_only", "both_same", "both_differ"):
        return v if lo <= v <= hi else "E:OverflowError"
    return "E:TypeError"


def python_oracle(obj, lo, hi):
    """P: CPython's own notion of `is an integer` (operator.index), then the range test."""
    try:
        v = int.__index__(operator.index(obj))     # (an int subclass instance is returned as is: take its value)
    except TypeError:
        return "E:TypeError"
    return v if lo <= v <= hi else "E:OverflowError"
