"""C22 helpers: render the programs published by spec/ExcState.tla as Python functions,
the run-time support module shared by both sides (probes, exception classes, context
managers) and the call protocol (`RUN`) used for P (plain CPython) and C (compiled)."""
import hashlib
import json
import os

import core

COMPOUND = ("try", "tf", "with", "loop", "seq")

# plain-Python support module, imported by the rendered module on both sides
RT_SOURCE = r'''
import sys
LOG = []
_N = [0]

class A(Exception):
    def __init__(self, *a):
        _N[0] += 1
        self.n = _N[0]
class B(A):
    pass
class C(Exception):
    def __init__(self, *a):
        _N[0] += 1
        self.n = _N[0]
class Z(Exception):
    pass

def tag(x):
    if isinstance(x, (A, C)):
        return type(x).__name__ + str(x.n)
    if type(x) is Z:
        return "Z"
    return type(x).__name__

def desc(x, fuel=12):
    if x is None:
        return "-"
    if not isinstance(x, BaseException):
        return "?" + type(x).__name__
    if fuel == 0:
        return "CYCLE"
    return "%s[%s,%s,%s]" % (tag(x), desc(x.__cause__, fuel - 1), desc(x.__context__, fuel - 1),
                             "T" if x.__suppress_context__ else "F")

def _cur():
    return desc(sys.exc_info()[1])

def P(k):                       # block start
    LOG.append([0, k, _cur(), "-"])
def Q(k):                       # after a compound statement
    LOG.append([1, k, _cur(), "-"])
def H(k, e=0):                  # handler start; e: the exception bound by `as` (0: not observed)
    LOG.append([2, k, _cur(), "?" if e == 0 else desc(e)])
def F():                        # end of the function body
    LOG.append([5, 0, _cur(), "-"])

class CM(object):
    def __init__(self, k, kind):
        self.k = k
        self.kind = kind
    def __enter__(self):
        LOG.append([3, self.k, _cur(), "-"])
        return self
    def __exit__(self, t, v, tb):
        if v is None and t is not None:
            v = t                # a non-normalised exception would be reported by its type
        LOG.append([4, self.k, _cur(), desc(v)])
        if self.kind == "raise":
            raise C
        return self.kind == "sup"

def reset():
    del LOG[:]
    _N[0] = 0
'''

# the call protocol; exec'd in a namespace that contains the functions under test
RUN_SOURCE = r'''
import sys, json
import c22rt as _rt

def _call(f):
    try:
        v = f()
        out = ["ret", v, "-"]
    except BaseException as ex:
        out = ["raise", 0, _rt.desc(ex)]
        ex = None
    return out

def RUN(name, outer):
    f = globals()[name]
    _rt.reset()
    pre = _rt.desc(sys.exc_info()[1])       # not "-": an EARLIER call left its exception behind in this process
    if outer:
        try:
            raise _rt.Z()
        except _rt.Z:
            out = _call(f)
            after = _rt.desc(sys.exc_info()[1])
    else:
        out = _call(f)
        after = _rt.desc(sys.exc_info()[1])
    return json.dumps([list(_rt.LOG), out, after, pre])
'''

P_DRIVER = r'''
import sys, json
moddir, srcpath, runpath, infile, outfile = sys.argv[1:6]
sys.path.insert(0, moddir)
ns = {"__name__": "c22plain"}
exec(compile(open(srcpath).read(), srcpath, "exec"), ns)
exec(compile(open(runpath).read(), runpath, "exec"), ns)
calls = json.load(open(infile))
res = []
for fn, args in calls:
    try:
        res.append(ns[fn](*args))
    except BaseException as e:
        res.append("E:" + type(e).__name__)
json.dump(res, open(outfile, "w"))
print("@@" + json.dumps({"done": len(res)}))
'''


def _h(seed, key, p, salt):
    return int(hashlib.sha1(("%s|%s|%s|%s" % (seed, key, p, salt)).encode()).hexdigest()[:8], 16)


def prog_key(prog):
    return json.dumps(prog, sort_keys=True, separators=(",", ":"))


class Renderer(object):
    """Renders one program.  Shape choices that are NOT part of the spec-side program (all of
    them semantically neutral in Python) are drawn from a hash of (seed, program, position):
      handler: `except E:` | `except E as e:` (unused) | `except E as e:` + H(k, e) (used)
      raise:   class (`raise A`) | instance (`raise A()`)
      loop:    `for _ in range(2)` | `for _ in (0, 1)`
      with:    `with CM(..):` | `with CM(..) as w:`
      quiet pass: `pass` | plain assignment of a literal
    """

    def __init__(self, seed, key):
        self.seed = seed
        self.key = key
        self.shapes = {}
        self.loops = set()

    def pick(self, p, salt, n):
        return _h(self.seed, self.key, p, salt) % n

    def block(self, s, p, ind, handler_var=None, is_handler=False):
        pad = "    " * ind
        t = s["t"]
        if t == "qpass":
            return [pad + ("pass" if self.pick(p, "qp", 2) == 0 else "hq = 1")]
        if t == "qret":
            return [pad + "return %d" % p]
        if is_handler:
            head = "H(%d, %s)" % (p, handler_var) if handler_var else "H(%d)" % p
        else:
            head = "P(%d)" % p
        out = [pad + head] + self.stmt(s, p, ind)
        if t in COMPOUND:
            out.append(pad + "Q(%d)" % p)
        return out

    def stmt(self, s, p, ind):
        pad = "    " * ind
        t = s["t"]
        if t == "nop":
            return []
        if t == "raise":
            inst = self.pick(p, "ri", 2) == 1
            c = s["c"] + ("()" if inst else "")
            if s["f"] == "":
                return [pad + "raise " + c]
            if s["f"] == "None":
                return [pad + "raise %s from None" % c]
            return [pad + "raise %s from %s" % (c, s["f"] + ("()" if inst else ""))]
        if t == "reraise":
            return [pad + "raise"]
        if t == "ret":
            return [pad + "return %d" % p]
        if t == "brk":
            return [pad + "break"]
        if t == "cnt":
            return [pad + "continue"]
        if t == "seq":
            return self.block(s["a"], p * 8 + 1, ind) + self.block(s["b"], p * 8 + 2, ind)
        if t == "loop":
            it = "range(2)" if self.pick(p, "lp", 2) == 0 else "(0, 1)"
            self.loops.add("range" if it == "range(2)" else "tuple")
            return [pad + "for _i%d in %s:" % (p, it)] + self.block(s["b"], p * 8 + 1, ind + 1)
        if t == "tf":
            return ([pad + "try:"] + self.block(s["b"], p * 8 + 1, ind + 1) +
                    [pad + "finally:"] + self.block(s["fin"], p * 8 + 2, ind + 1))
        if t == "try":
            n = len(s["hs"])
            out = [pad + "try:"] + self.block(s["b"], p * 8 + 1, ind + 1)
            for i, h in enumerate(s["hs"], 1):
                hp = p * 8 + 1 + i
                shape = self.pick(hp, "hs", 3)      # 0 plain, 1 as unused, 2 as used
                quiet = h["b"]["t"] in ("qpass", "qret")
                var = "e%d" % hp
                if h["c"] == "*":
                    if shape == 0:
                        out.append(pad + "except:")
                    else:
                        out.append(pad + "except BaseException as %s:" % var)
                else:
                    out.append(pad + "except %s%s:" % (h["c"], "" if shape == 0 else " as " + var))
                self.shapes[hp] = ("quiet-" if quiet else "") + ("plain", "as-unused", "as-used")[shape]
                out += self.block(h["b"], hp, ind + 1, handler_var=var if shape == 2 else None, is_handler=True)
            out += [pad + "else:"] + self.block(s["el"], p * 8 + n + 2, ind + 1)
            out += [pad + "finally:"] + self.block(s["fin"], p * 8 + n + 3, ind + 1)
            return out
        if t == "with":
            tgt = "" if self.pick(p, "wt", 2) == 0 else " as w%d" % p
            return [pad + "with CM(%d, %r)%s:" % (p, str(s["cm"]), tgt)] + self.block(s["b"], p * 8 + 1, ind + 1)
        raise ValueError("unknown statement %r" % (s,))

    def function(self, name, prog):
        body = self.block(prog, 1, 1)
        return ["def %s():" % name] + body + ["    F()", "    return 0", ""]


MODULE_HEAD = ["# cython: language_level=3", "from c22rt import P, Q, H, F, CM, A, B, C", ""]


def render_module(progs, seed):
    """progs: list of (function name, program).  Returns (source text, {name: shapes})."""
    lines = list(MODULE_HEAD)
    shapes = {}
    for name, prog in progs:
        r = Renderer(seed, prog_key(prog))
        lines += r.function(name, prog)
        shapes[name] = dict(r.shapes, loops="+".join(sorted(r.loops)))
    return "\n".join(lines) + "\n", shapes


def expected(case):
    """spec-side expectation of a published case in the shape RUN reports"""
    log = [[e[0], e[1], e[2], e[3]] for e in case["log"]]
    if case["out"] == "raise":
        out = ["raise", 0, case["exc"]]
    elif case["out"] == "ret":
        out = ["ret", case["val"], "-"]
    else:                       # the body ran to its end: `return 0`
        out = ["ret", 0, "-"]
    return [log, out, case["after"]]


def same(want, got):
    """compare an expectation with an observation; the bound exception of a handler is only
    observed when the rendered handler uses its `as` name ("?" otherwise)"""
    if not isinstance(got, list) or len(got) < 3:
        return False
    if want[1] != got[1] or want[2] != got[2] or len(want[0]) != len(got[0]):
        return False
    for w, g in zip(want[0], got[0]):
        if w[:3] != g[:3]:
            return False
        if g[3] != "?" and w[3] != g[3]:
            return False
    return True


def run_plain(moddir, src_path, calls, tag="p"):
    runpath = os.path.join(moddir, "c22run.py")
    with open(runpath, "w") as f:
        f.write(RUN_SOURCE)
    inf = os.path.join(moddir, tag + "_in.json")
    outf = os.path.join(moddir, tag + "_out.json")
    with open(inf, "w") as f:
        json.dump(calls, f)
    ch = core.run_child(P_DRIVER, [moddir, src_path, runpath, inf, outf], timeout=900)
    if ch.rc != 0 or not os.path.exists(outf):
        core.die("plain-Python run failed: rc=%s %s" % (ch.rc, ch.err[-2000:]))
    with open(outf) as f:
        return [json.loads(r) if isinstance(r, str) and r.startswith("[") else r for r in json.load(f)]
