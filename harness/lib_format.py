"""C18 helpers: decoding of the cases published by spec/FormatSpec.tla, rendering of the
compiled test functions and of the CPython oracle expressions."""
import math

LIMB = 65536
ERR = {1: "E:ValueError", 2: "E:TypeError", 3: "E:OverflowError"}

#             tag        C declaration          bits signed
INT_CTYPES = [("schar", "signed char", 8, True), ("uchar", "unsigned char", 8, False), ("short", "short", 16, True),
              ("ushort", "unsigned short", 16, False), ("int", "int", 32, True), ("uint", "unsigned int", 32, False),
              ("long", "long", 64, True), ("ulong", "unsigned long", 64, False), ("llong", "long long", 64, True),
              ("ullong", "unsigned long long", 64, False), ("ssize", "Py_ssize_t", 64, True), ("size", "size_t", 64, False)]
CAR_DECL = {"bint": "bint", "cdouble": "double", "obj": "object", "strobj": "str"}


def to_limbs(n, limbs=5):
    n = abs(n)
    out = []
    for _ in range(limbs):
        out.append(n % LIMB)
        n //= LIMB
    assert n == 0
    return out[::-1]


def from_limbs(mag):
    n = 0
    for l in mag:
        n = n * LIMB + l
    return n


def text(cps):
    return "".join(chr(c) for c in cps)


def dec_value(v):
    k = v["k"]
    if k == "int":
        n = from_limbs(v["mag"])
        return -n if v["neg"] else n
    if k == "bool":
        return bool(v["b"])
    if k == "str":
        return text(v["cps"])
    if k == "none":
        return None
    if k == "float":
        if v["cls"] == "nan":
            return math.nan
        if v["cls"] == "inf":
            return -math.inf if v["neg"] else math.inf
        x = v["m"] / float(2 ** v["e"])
        assert x * 2 ** v["e"] == v["m"]
        return -x if v["neg"] else x
    raise ValueError(v)


def expected(out):
    """spec outcome -> observation string, or None when the spec does not decide the cell"""
    e = out["e"]
    if e == 0:
        return "T:" + text(out["t"])
    if e == 8:
        return None
    return ERR[e]


def carrier(op):
    """carrier key of an operand: C type tag for C integers, else the carrier name"""
    return INT_CTYPES[op["ti"] - 1][0] if op["car"] == "cint" else op["car"]


def decl_of(car):
    for tag, decl, _, _ in INT_CTYPES:
        if tag == car:
            return decl
    return CAR_DECL[car]


def fvalue_src(var, conv, s):
    return "{%s%s%s}" % (var, ("!" + chr(conv)) if conv else "", (":" + text(s)) if s else "")


def quote(t):
    """a Python/Cython string literal for text t (used inside generated source; ASCII only with escapes)"""
    return ascii(t)


def expr_of(case):
    """source of the expression under test; the operand variable is `v` (joins: `a`, `b`)"""
    site = case["site"]
    if site == "fstr":
        body = fvalue_src("v", case["conv"], case["s"])
        assert '"' not in body and "\\" not in body and "\n" not in body
        return 'f"%s"' % body
    if site == "pct":
        tpl = "%" + text(case["pre"]) + text(case["prectext"]) + chr(case["ty"])
        assert '"' not in tpl and "\\" not in tpl
        return '"%s" %% (v,)' % tpl
    if site == "call":
        fn = case["fn"]
        if fn == "str":
            return "str(v)"
        if fn == "repr":
            return "repr(v)"
        if fn == "format0":
            return "format(v)"
        return 'format(v, "%s")' % text(case["s"])
    if site == "join":
        out = []
        for p in case["parts"]:
            if p["lit"]:
                t = text(p["t"])
                assert not (set(t) & set('{}"\\\n'))
                out.append(t)
            else:
                out.append(fvalue_src("a" if p["op"] == 1 else "b", p["conv"], p["s"]))
        return 'f"%s"' % "".join(out)
    raise ValueError(site)


def case_key(case):
    return expr_of(case)


def observe(fn, *args):
    try:
        r = fn(*args)
    except BaseException as e:      # noqa
        return "E:" + type(e).__name__
    if type(r) is not str:
        return "O:" + type(r).__name__
    return "T:" + r


_CODE = {}


def cpython(case, op):
    """P: the same expression evaluated by CPython"""
    src = expr_of(case)
    code = _CODE.get(src)
    if code is None:
        code = _CODE[src] = compile(src, "<c18>", "eval")
    if case["site"] == "join":
        ns = {"a": dec_value(op["v"]), "b": dec_value(op["w"])}
    else:
        ns = {"v": dec_value(op["v"])}
    return observe(lambda: eval(code, ns))


def ord_class(n):
    if n < 0:
        return "neg"
    if n <= 0x10FFFF:
        return "surrogate" if 0xD800 <= n <= 0xDFFF else ("ascii" if n < 128 else "valid")
    if n < 0x200000:
        return "110000-1fffff"
    return "ge200000"


def value_class(x):
    if x is None:
        return "none"
    if type(x) is bool:
        return "bool"
    if type(x) is int:
        return "int"
    if type(x) is float:
        return "float"
    return "str"
