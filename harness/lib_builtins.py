"""C13 helpers: call-shape table, source generation, value rendering and the child-side prelude.

Values travel in the representation of spec/Builtins.tla: a triple [tag, sub, payload]
  tag      None bool int big float fnan finf str bytes bytearray list tuple set frozenset dict type exc
  sub      ""   exact builtin type
           "S"  subclass without overrides         (class list_S(list): pass)
           "O"  subclass overriding the optimised methods (every override returns 'ovr', __len__ returns 7)
  payload  int: the number (scaled shapes: 8-bit image, see `embed`); big: +1/-1 (= +-2**70);
           float: number of quarters (k/4), fnan: 0, finf: +1/-1, fnz (negative zero): 0;
           str/bytes/bytearray: sequence of code points / byte values; list/tuple: sequence of values;
           set/frozenset: set of values (JSON array); dict: sequence of [key, value]; type: names;
           exc: [class name, argument] = the exception instance cls(argument) ("S": instance of a plain subclass)
The canonical observation form (child side `canon`, harness side `canon_of_spec`) is a JSON-able
nested list that keeps the exact result type (subclass instances show their class name).
"""
import json
import re

BIG = 2 ** 70
# payload of a "big" value -> the integer (|k| = 2 still fits a C long / Py_ssize_t, but not a C int)
BIGVAL = {1: 2 ** 70, -1: -2 ** 70, 2: 2 ** 32 + 65, -2: -(2 ** 32) - 65}

# --------------------------------------------------------------------------
# spec value -> python expression / canonical form


def embed(v, w):
    """Monotone odd embedding of the 8-bit scaled integers into w-bit integers:
    identity on -100..100, the 28 values next to each bound keep their distance to the bound
    (-128 -> -2**(w-1), 127 -> 2**(w-1)-1, 128 -> 2**(w-1)).  abs/min/max/neg/comparison commute with it."""
    if w is None or abs(v) <= 100:
        return v
    m = (1 << (w - 1)) - (128 - abs(v))
    return m if v > 0 else -m


def _chars(p):
    return "".join(chr(c) for c in p)


def pyexpr(v, w=None):
    tag, sub, p = v
    if tag == "None":
        return "None"
    if tag == "type":
        if isinstance(p, list):
            return "(" + "".join(n + ", " for n in p) + ")"
        return p
    if tag == "bool":
        e = "True" if p else "False"
        return e
    if tag == "int":
        e = "(%d)" % embed(p, w)
    elif tag == "big":
        e = "(%d)" % BIGVAL[p]
    elif tag == "float":
        e = "(%r)" % (p / 4.0)
    elif tag == "fnz":
        e = "(-0.0)"
    elif tag == "fnan":
        e = "float('nan')"
    elif tag == "finf":
        e = "float('%sinf')" % ("-" if p < 0 else "")
    elif tag == "str":
        e = "%a" % _chars(p)
    elif tag == "bytes":
        e = "%r" % bytes(p)
    elif tag == "bytearray":
        e = "bytearray(%r)" % bytes(p)
    elif tag == "list":
        e = "[" + ", ".join(pyexpr(x, w) for x in p) + "]"
    elif tag == "tuple":
        e = "(" + "".join(pyexpr(x, w) + ", " for x in p) + ")"
    elif tag == "set":
        e = ("{" + ", ".join(pyexpr(x, w) for x in p) + "}") if p else "set()"
    elif tag == "frozenset":
        e = "frozenset([" + ", ".join(pyexpr(x, w) for x in p) + "])"
    elif tag == "dict":
        e = "{" + ", ".join(pyexpr(k, w) + ": " + pyexpr(x, w) for k, x in p) + "}"
    elif tag == "exc":
        return "%s%s(%s)" % (p[0], "_" + sub if sub else "", pyexpr(p[1], w))
    else:
        raise ValueError("pyexpr: %r" % (v,))
    if sub:
        tn = {"big": "int", "fnan": "float", "finf": "float", "fnz": "float"}.get(tag, tag)
        return "%s_%s(%s)" % (tn, sub, e)
    return e


def canon_of_spec(v, w=None):
    tag, sub, p = v
    tn = {"big": "int", "fnan": "float", "finf": "float", "fnz": "float"}.get(tag, tag)
    name = tn + ("_" + sub if sub else "")
    if tag == "None":
        return ["None"]
    if tag == "bool":
        return ["bool", bool(p)]
    if tag == "int":
        return [name, str(embed(p, w))]
    if tag == "big":
        return [name, str(BIGVAL[p])]
    if tag == "float":
        return [name, repr(p / 4.0)]
    if tag == "fnz":
        return [name, "-0.0"]
    if tag == "fnan":
        return [name, "nan"]
    if tag == "finf":
        return [name, "-inf" if p < 0 else "inf"]
    if tag in ("str", "bytes", "bytearray"):
        return [name, list(p)]
    if tag in ("list", "tuple"):
        return [name, [canon_of_spec(x, w) for x in p]]
    if tag in ("set", "frozenset"):
        return [name, sorted((canon_of_spec(x, w) for x in p), key=json.dumps)]
    if tag == "dict":
        return [name, [[canon_of_spec(k, w), canon_of_spec(x, w)] for k, x in p]]
    if tag == "exc":
        return ["exc", p[0] + ("_" + sub if sub else ""), [canon_of_spec(p[1], w)]]
    raise ValueError("canon_of_spec: %r" % (v,))


def literal(v):
    """source text of a literal argument (exact builtin values only)"""
    if v[1]:
        raise ValueError("no literal for subclass instance")
    return pyexpr(v)


PRELUDE = r'''
import json as _json


def _mk(base, sub):
    ns = {}
    if sub == "O":
        def ovr(self, *a, **k):
            return "ovr"
        for m in ("append pop insert extend reverse sort get setdefault update keys values items add discard remove "
                  "clear copy startswith endswith find rfind count replace split splitlines join encode decode "
                  "lower upper isalpha isdigit").split():
            if hasattr(base, m):
                ns[m] = ovr
        if hasattr(base, "__len__"):
            ns["__len__"] = lambda self: 7
    return type("%s_%s" % (base.__name__, sub), (base,), ns)


for _b in (int, float, str, bytes, bytearray, list, tuple, set, frozenset, dict):
    for _s in ("S", "O"):
        _c = _mk(_b, _s)
        globals()[_c.__name__] = _c

for _b in (KeyError, LookupError, ValueError):
    _c = _mk(_b, "S")
    globals()[_c.__name__] = _c

_EXACT = {int: "int", float: "float", str: "str", bytes: "bytes", bytearray: "bytearray", list: "list",
          tuple: "tuple", set: "set", frozenset: "frozenset", dict: "dict"}


def canon(v, depth=0):
    if v is None:
        return ["None"]
    t = type(v)
    if t is bool:
        return ["bool", v]
    name = _EXACT.get(t) or t.__name__
    if depth > 6:
        return ["deep", name]
    if isinstance(v, bool):
        return [name, bool(v)]
    if isinstance(v, int):
        return [name, str(int(v))]
    if isinstance(v, float):
        return [name, float.__repr__(v)]
    if isinstance(v, str):
        return [name, [ord(c) for c in str.__iter__(v)]]
    if isinstance(v, (bytes, bytearray)):
        return [name, list(bytes(v))]
    if isinstance(v, (list, tuple)):
        return [name, [canon(x, depth + 1) for x in list.__iter__(v) ]] if isinstance(v, list) else \
               [name, [canon(x, depth + 1) for x in tuple.__iter__(v)]]
    if isinstance(v, (set, frozenset)):
        return [name, sorted((canon(x, depth + 1) for x in (set.__iter__(v) if isinstance(v, set) else frozenset.__iter__(v))),
                             key=_json.dumps)]
    if isinstance(v, dict):
        return [name, [[canon(k, depth + 1), canon(x, depth + 1)] for k, x in dict.items(v)]]
    if isinstance(v, type):
        return ["type", v.__name__]
    if isinstance(v, BaseException):
        return ["exc", name, [canon(x, depth + 1) for x in v.args]]
    return ["obj", name]


def exc_data(e):
    """the arguments of a raised exception (data of the call where the spec models them, e.g. KeyError(key))"""
    try:
        return [canon(x, 1) for x in e.args]
    except Exception as e2:
        return ["unreadable", type(e2).__name__]


def run(fname, argsrc, mut):
    """Call fname(*eval(argsrc)); observation = JSON text of [outcome, receiver after the call | None]."""
    g = globals()
    args = eval(argsrc, g)
    try:
        r = ["v", canon(g[fname](*args))]
    except RecursionError:
        raise
    except Exception as e:
        r = ["e", type(e).__name__, exc_data(e)]
    post = canon(args[0]) if mut else None
    return _json.dumps([r, post], separators=(",", ":"))
'''

# --------------------------------------------------------------------------
# call shapes


class Shape(object):
    """One call-site shape.  params: argument names (the first is the receiver for methods);
    body: expression, or statement when stmt=True (the function then returns None);
    mut: the first argument's value after the call is part of the observation;
    variants: list of (tag, {param: declaration}, [literal params]);
    scaled: integer arguments are 8-bit images of the C type's range (see embed)."""

    def __init__(self, name, params, body, variants, mut=False, stmt=False, scaled=False, group="", lit_ok=None):
        self.name = name
        # tags a literal argument may have (others are rejected at compile time, which is not a run-time observation)
        self.lit_ok = dict(lit_ok or {})
        self.params = params.split()
        self.body = body
        self.mut = mut
        self.stmt = stmt
        self.scaled = scaled
        self.group = group
        self.variants = []
        for v in variants:
            tag, decl, lits = (v + ({}, ()))[:3] if isinstance(v, tuple) else (v, {}, ())
            self.variants.append((tag, dict(decl), tuple(lits)))


CINT_BITS = {"int": 32, "long": 64, "long long": 64, "Py_ssize_t": 64, "short": 16, "signed char": 8,
             "unsigned char": 8, "unsigned int": 32, "size_t": 64, "char": 8}
CINT_UNSIGNED = {"unsigned char", "unsigned int", "size_t"}
BUILTIN_DECLS = {"list", "tuple", "dict", "set", "frozenset", "str", "bytes", "bytearray"}


def admits(decl, v, w=None):
    """Is the spec value `v` inside the declared domain of a parameter declared `decl`?
    (None = untyped object parameter.)  Builtin-typed parameters take the exact type or None."""
    tag, sub, p = v
    if decl is None:
        return True
    if decl in BUILTIN_DECLS:
        return tag == "None" or (tag == decl and sub == "")
    if decl.endswith(" not None"):
        return tag == decl.split()[0] and sub == ""
    if decl in CINT_BITS:
        if tag not in ("int", "big") or sub:
            return False
        x = embed(p, w) if tag == "int" else BIGVAL[p]
        bits = CINT_BITS[decl]
        lo, hi = (0, (1 << bits) - 1) if decl in CINT_UNSIGNED else (-(1 << (bits - 1)), (1 << (bits - 1)) - 1)
        return lo <= x <= hi
    if decl == "double":
        return tag in ("float", "fnan", "finf", "fnz") and sub == ""
    if decl == "Py_UCS4":
        return tag == "str" and sub == "" and len(p) == 1
    if decl == "bint":
        return tag == "bool"
    if decl == "object":
        return True
    raise ValueError("admits: unknown declaration %r" % decl)


def U(*lits):
    return ("u" + ("k" if lits else ""), {}, lits)


def T(tag, lits=(), **decl):
    return (tag, {k: v.replace("_", " ") if v not in ("Py_ssize_t", "Py_UCS4") else v for k, v in decl.items()}, lits)


SEQ_T = [T("list", x="list"), T("tuple", x="tuple"), T("str", x="str"), T("bytes", x="bytes"),
         T("bytearray", x="bytearray"), T("dict", x="dict"), T("set", x="set"), T("frozenset", x="frozenset")]


def _str_recv(extra=()):
    return ["u", T("str", s="str"), T("bytes", s="bytes"), T("bytearray", s="bytearray")] + list(extra)


SHAPES = [
    # ---- numeric
    Shape("len", "x", "len(x)", ["u"] + SEQ_T, group="num"),
    Shape("abs", "x", "abs(x)", ["u", T("int", x="int"), T("long", x="long"), T("llong", x="long_long"),
                                 T("short", x="short"), T("double", x="double")], scaled=True, group="num"),
    Shape("min2", "a b", "min(a, b)", ["u", T("int", a="int", b="int"), T("long", a="long", b="long"),
                                        T("il", a="int", b="long"), T("double", a="double", b="double"),
                                        U("b")], scaled=True, group="num"),
    Shape("max2", "a b", "max(a, b)", ["u", T("int", a="int", b="int"), T("long", a="long", b="long"),
                                        T("li", a="long", b="int"), T("double", a="double", b="double"),
                                        U("b")], scaled=True, group="num"),
    Shape("min3", "a b c", "min(a, b, c)", ["u", T("int", a="int", b="int", c="int"),
                                             T("double", a="double", b="double", c="double")], scaled=True, group="num"),
    Shape("max3", "a b c", "max(a, b, c)", ["u", T("int", a="int", b="int", c="int"),
                                             T("double", a="double", b="double", c="double")], scaled=True, group="num"),
    Shape("sum", "x", "sum(x)", ["u", T("list", x="list"), T("tuple", x="tuple")], group="num"),
    Shape("sumgen", "x", "sum(v for v in x)", ["u", T("list", x="list")], group="num"),
    Shape("sumcomp", "x", "sum([v for v in x])", ["u", T("list", x="list")], group="num"),
    Shape("ord", "x", "ord(x)", ["u", T("str", x="str"), T("bytes", x="bytes"), T("bytearray", x="bytearray"),
                                 T("ucs4", x="Py_UCS4")], group="num"),
    Shape("chr", "x", "chr(x)", ["u", T("int", x="int"), T("long", x="long"), T("ssize", x="Py_ssize_t")], group="num"),
    Shape("int", "x", "int(x)", ["u", T("double", x="double"), T("str", x="str"), T("bytes", x="bytes")], group="num"),
    Shape("float", "x", "float(x)", ["u", T("double", x="double"), T("str", x="str"), T("bytes", x="bytes"),
                                     T("bytearray", x="bytearray"), T("int", x="int")], group="num"),
    Shape("bool", "x", "bool(x)", ["u"] + SEQ_T + [T("int", x="int"), T("double", x="double")], group="num"),
    Shape("str", "x", "str(x)", ["u", T("str", x="str")], group="num"),
    # ---- predicates
    Shape("any", "x", "any(x)", ["u", T("list", x="list")], group="pred"),
    Shape("all", "x", "all(x)", ["u", T("list", x="list")], group="pred"),
    Shape("anygen", "x", "any(v for v in x)", ["u", T("list", x="list"), T("tuple", x="tuple")], group="pred"),
    Shape("allgen", "x", "all(v for v in x)", ["u", T("list", x="list"), T("tuple", x="tuple")], group="pred"),
    Shape("isinstance", "x t", "isinstance(x, t)", [U("t"), T("list", ("t",), x="list"), T("str", ("t",), x="str")], lit_ok={"t": ("type",)}, group="pred"),
    # ---- constructors
    Shape("list", "x", "list(x)", ["u"] + SEQ_T, group="ctor"),
    Shape("tuple", "x", "tuple(x)", ["u"] + SEQ_T, group="ctor"),
    Shape("set", "x", "set(x)", ["u"] + SEQ_T, group="ctor"),
    Shape("frozenset", "x", "frozenset(x)", ["u"] + SEQ_T, group="ctor"),
    Shape("dict", "x", "dict(x)", ["u", T("dict", x="dict"), T("list", x="list"), T("tuple", x="tuple")], group="ctor"),
    Shape("listgen", "x", "list(v for v in x)", ["u", T("list", x="list")], group="ctor"),
    Shape("setgen", "x", "set(v for v in x)", ["u", T("list", x="list")], group="ctor"),
    Shape("dictgen", "x", "dict((v, v) for v in x)", ["u", T("list", x="list")], group="ctor"),
    Shape("sorted", "x", "sorted(x)", ["u"] + SEQ_T, group="ctor"),
    Shape("sortedgen", "x", "sorted(v for v in x)", ["u", T("list", x="list")], group="ctor"),
    # ---- dict methods
    Shape("d_get1", "d k", "d.get(k)", ["u", T("dict", d="dict"), U("k"), T("dictk", ("k",), d="dict")], mut=True, group="dict"),
    Shape("d_get2", "d k v", "d.get(k, v)", ["u", T("dict", d="dict")], mut=True, group="dict"),
    Shape("d_setdefault1", "d k", "d.setdefault(k)", ["u", T("dict", d="dict")], mut=True, group="dict"),
    Shape("d_setdefault2", "d k v", "d.setdefault(k, v)", ["u", T("dict", d="dict")], mut=True, group="dict"),
    Shape("d_pop1", "d k", "d.pop(k)", ["u", T("dict", d="dict"), T("dictk", ("k",), d="dict")], mut=True, group="dict"),
    Shape("d_pop2", "d k v", "d.pop(k, v)", ["u", T("dict", d="dict")], mut=True, group="dict"),
    Shape("d_contains", "d k", "k in d", ["u", T("dict", d="dict")], mut=True, group="dict"),
    Shape("d_getitem", "d k", "d[k]", ["u", T("dict", d="dict"), U("k"), T("dictk", ("k",), d="dict")], mut=True, group="dict"),
    Shape("d_delitem", "d k", "del d[k]", ["u", T("dict", d="dict"), U("k"), T("dictk", ("k",), d="dict")], mut=True, stmt=True, group="dict"),
    Shape("d_keys", "d", "list(d.keys())", ["u", T("dict", d="dict")], mut=True, group="dict"),
    Shape("d_values", "d", "list(d.values())", ["u", T("dict", d="dict")], mut=True, group="dict"),
    Shape("d_items", "d", "list(d.items())", ["u", T("dict", d="dict")], mut=True, group="dict"),
    Shape("d_copy", "d", "d.copy()", ["u", T("dict", d="dict")], mut=True, group="dict"),
    Shape("d_clear", "d", "d.clear()", ["u", T("dict", d="dict")], mut=True, group="dict"),
    Shape("d_update", "d o", "d.update(o)", ["u", T("dict", d="dict"), T("dd", d="dict", o="dict")], mut=True, group="dict"),
    # ---- list methods
    Shape("l_append", "x v", "x.append(v)", ["u", T("list", x="list")], mut=True, stmt=True, group="list"),
    Shape("l_append_r", "x v", "x.append(v)", ["u", T("list", x="list")], mut=True, group="list"),
    Shape("l_pop0", "x", "x.pop()", ["u", T("list", x="list")], mut=True, group="list"),
    Shape("l_pop1", "x i", "x.pop(i)", ["u", T("list", x="list"), T("list_ssize", x="list", i="Py_ssize_t"),
                                         T("list_int", x="list", i="int"), T("u_ssize", i="Py_ssize_t"),
                                         T("list_uint", x="list", i="unsigned_int"),
                                         U("i"), T("listk", ("i",), x="list")], mut=True, lit_ok={"i": ("int",)}, group="list"),
    Shape("l_insert", "x i v", "x.insert(i, v)", ["u", T("list", x="list"), T("list_ssize", x="list", i="Py_ssize_t"),
                                                   T("listk", ("i",), x="list")], mut=True, lit_ok={"i": ("int",)}, group="list"),
    Shape("l_extend", "x it", "x.extend(it)", ["u", T("list", x="list"), T("ll", x="list", it="list")], mut=True, group="list"),
    Shape("l_extend_lit2", "x a b", "x.extend([a, b])", ["u", T("list", x="list")], mut=True, stmt=True, group="list"),
    Shape("l_reverse", "x", "x.reverse()", ["u", T("list", x="list")], mut=True, group="list"),
    Shape("l_sort", "x", "x.sort()", ["u", T("list", x="list")], mut=True, group="list"),
    # ---- set methods
    Shape("s_add", "s v", "s.add(v)", ["u", T("set", s="set")], mut=True, group="set"),
    Shape("s_discard", "s v", "s.discard(v)", ["u", T("set", s="set")], mut=True, group="set"),
    Shape("s_remove", "s v", "s.remove(v)", ["u", T("set", s="set"), U("v"), T("setk", ("v",), s="set")], mut=True, group="set"),
    Shape("s_contains", "s v", "v in s", ["u", T("set", s="set"), T("frozenset", s="frozenset")], mut=True, group="set"),
    Shape("s_clear", "s", "s.clear()", ["u", T("set", s="set")], mut=True, group="set"),
    Shape("s_pop", "s", "s.pop()", ["u", T("set", s="set")], mut=True, group="set"),
    # ---- bytearray methods
    Shape("ba_append", "b v", "b.append(v)", ["u", T("ba", b="bytearray"), T("ba_int", b="bytearray", v="int"),
                                               T("ba_uchar", b="bytearray", v="unsigned_char"),
                                               T("ba_long", b="bytearray", v="long")], mut=True, group="bytearray"),
    Shape("ba_extend", "b it", "b.extend(it)", ["u", T("ba", b="bytearray"), T("ba_bytes", b="bytearray", it="bytes")],
          mut=True, group="bytearray"),
    # ---- str / bytes / bytearray methods
    Shape("startswith1", "s p", "s.startswith(p)", _str_recv([U("p"), T("strk", ("p",), s="str"), T("bytesk", ("p",), s="bytes")]), lit_ok={"p": ("str", "bytes", "tuple")}, group="str"),
    Shape("startswith2", "s p a", "s.startswith(p, a)", _str_recv([T("str_ssize", s="str", a="Py_ssize_t"), T("strk", ("a",), s="str")]), lit_ok={"a": ("int", "None")}, group="str"),
    Shape("startswith3", "s p a b", "s.startswith(p, a, b)", _str_recv([T("str_ssize", s="str", a="Py_ssize_t", b="Py_ssize_t"),
                                                                           T("strk", ("a", "b"), s="str")]), lit_ok={"a": ("int", "None"), "b": ("int", "None")}, group="str"),
    Shape("endswith1", "s p", "s.endswith(p)", _str_recv([U("p"), T("strk", ("p",), s="str"), T("bytesk", ("p",), s="bytes")]), lit_ok={"p": ("str", "bytes", "tuple")}, group="str"),
    Shape("endswith2", "s p a", "s.endswith(p, a)", _str_recv([T("str_ssize", s="str", a="Py_ssize_t"), T("strk", ("a",), s="str")]), lit_ok={"a": ("int", "None")}, group="str"),
    Shape("endswith3", "s p a b", "s.endswith(p, a, b)", _str_recv([T("str_ssize", s="str", a="Py_ssize_t", b="Py_ssize_t"),
                                                                       T("strk", ("a", "b"), s="str")]), lit_ok={"a": ("int", "None"), "b": ("int", "None")}, group="str"),
    Shape("find1", "s p", "s.find(p)", ["u", T("str", s="str"), T("strk", ("p",), s="str")], lit_ok={"p": ("str",)}, group="str"),
    Shape("find2", "s p a", "s.find(p, a)", ["u", T("str", s="str"), T("str_ssize", s="str", a="Py_ssize_t"), T("strk", ("a",), s="str")], lit_ok={"a": ("int", "None")}, group="str"),
    Shape("find3", "s p a b", "s.find(p, a, b)", ["u", T("str", s="str"), T("str_ssize", s="str", a="Py_ssize_t", b="Py_ssize_t"), T("strk", ("a", "b"), s="str")], lit_ok={"a": ("int", "None"), "b": ("int", "None")}, group="str"),
    Shape("rfind1", "s p", "s.rfind(p)", ["u", T("str", s="str")], group="str"),
    Shape("rfind3", "s p a b", "s.rfind(p, a, b)", ["u", T("str", s="str"), T("str_ssize", s="str", a="Py_ssize_t", b="Py_ssize_t"), T("strk", ("a", "b"), s="str")], lit_ok={"a": ("int", "None"), "b": ("int", "None")}, group="str"),
    Shape("count1", "s p", "s.count(p)", ["u", T("str", s="str")], group="str"),
    Shape("count3", "s p a b", "s.count(p, a, b)", ["u", T("str", s="str"), T("str_ssize", s="str", a="Py_ssize_t", b="Py_ssize_t"), T("strk", ("a", "b"), s="str")], lit_ok={"a": ("int", "None"), "b": ("int", "None")}, group="str"),
    Shape("replace2", "s a b", "s.replace(a, b)", ["u", T("str", s="str"), T("strk", ("a", "b"), s="str")], lit_ok={"a": ("str",), "b": ("str",)}, group="str"),
    Shape("replace3", "s a b n", "s.replace(a, b, n)", ["u", T("str", s="str"), T("str_ssize", s="str", n="Py_ssize_t")], group="str"),
    Shape("split0", "s", "s.split()", ["u", T("str", s="str")], group="str"),
    Shape("split1", "s p", "s.split(p)", ["u", T("str", s="str"), T("strk", ("p",), s="str")], lit_ok={"p": ("str", "None")}, group="str"),
    Shape("split2", "s p n", "s.split(p, n)", ["u", T("str", s="str"), T("str_ssize", s="str", n="Py_ssize_t")], group="str"),
    Shape("splitlines0", "s", "s.splitlines()", ["u", T("str", s="str")], group="str"),
    Shape("splitlines1", "s k", "s.splitlines(k)", ["u", T("str", s="str"), T("strk", ("k",), s="str"), T("str_bint", s="str", k="bint")], lit_ok={"k": ("bool",)}, group="str"),
    Shape("join", "s it", "s.join(it)", ["u", T("str", s="str"), T("strk", ("s",)), T("str_list", s="str", it="list"),
                                         T("bytes", s="bytes"), T("str_tuple", s="str", it="tuple")], lit_ok={"s": ("str", "bytes")}, group="str"),
    Shape("joingen", "s it", "s.join(v for v in it)", ["u", T("str", s="str")], group="str"),
    Shape("encode0", "s", "s.encode()", ["u", T("str", s="str")], group="str"),
    Shape("encode1", "s e", "s.encode(e)", [U("e"), T("strk", ("e",), s="str"), "u", T("str", s="str")], lit_ok={"e": ("str",)}, group="str"),
    Shape("encode2", "s e r", "s.encode(e, r)", [U("e", "r"), T("strk", ("e", "r"), s="str")], lit_ok={"e": ("str",), "r": ("str",)}, group="str"),
    Shape("decode0", "b", "b.decode()", ["u", T("bytes", b="bytes"), T("bytearray", b="bytearray")], group="str"),
    Shape("decode1", "b e", "b.decode(e)", [U("e"), T("bytesk", ("e",), b="bytes"), T("bytearrayk", ("e",), b="bytearray")], lit_ok={"e": ("str",)}, group="str"),
    Shape("decode2", "b e r", "b.decode(e, r)", [U("e", "r"), T("bytesk", ("e", "r"), b="bytes")], lit_ok={"e": ("str",), "r": ("str",)}, group="str"),
    Shape("slicedecode", "b i j e", "b[i:j].decode(e)", [T("bytesk", ("e",), b="bytes"), T("bytes_ssize", ("e",), b="bytes", i="Py_ssize_t", j="Py_ssize_t"),
                                                        T("bytearrayk", ("e",), b="bytearray"), U("e")], lit_ok={"e": ("str",)}, group="str"),
    Shape("mul", "s n", "s * n", ["u", T("str", s="str"), T("bytes", s="bytes"), T("list", s="list"), T("tuple", s="tuple"),
                                  T("str_ssize", s="str", n="Py_ssize_t"), T("list_ssize", s="list", n="Py_ssize_t"),
                                  T("bytearray", s="bytearray")], group="str"),
    Shape("rmul", "s n", "n * s", ["u", T("str", s="str"), T("list_ssize", s="list", n="Py_ssize_t")], group="str"),
    Shape("contains", "s c", "c in s", ["u", T("str", s="str"), T("str_ucs4", s="str", c="Py_UCS4"), T("bytes", s="bytes"),
                                        T("list", s="list"), T("tuple", s="tuple")], group="str"),
    # ---- Py_UCS4 predicates and case mapping
] + [
    Shape("c_" + m, "c", "c.%s()" % m, ["u", T("ucs4", c="Py_UCS4"), T("str", c="str")], group="ucs4")
    for m in ("isalpha", "isdigit", "isdecimal", "isnumeric", "isspace", "isupper", "islower", "isalnum", "istitle", "lower", "upper", "title")
]

SHAPE = {s.name: s for s in SHAPES}


LIT_DEFAULT = ("None", "bool", "int", "float", "str", "bytes", "tuple", "type")


def lit_admissible(shape, lits, args):
    for p in lits:
        v = args[shape.params.index(p)]
        if v[1] or v[0] not in shape.lit_ok.get(p, LIT_DEFAULT):
            return False
    return True


def lit_key(shape, lits, args):
    """stable function-name suffix for the literal arguments of a variant"""
    import hashlib
    if not lits:
        return ""
    txt = "|".join(literal(args[shape.params.index(p)]) for p in lits)
    return "_" + hashlib.sha1(txt.encode()).hexdigest()[:10]


def func_name(shape, vtag, lits, args):
    return "f_%s__%s%s" % (shape.name, vtag, lit_key(shape, lits, args))


def func_source(shape, vtag, decl, lits, args, pure):
    """source of one function; pure=True gives the undecorated Python version (the oracle P)"""
    name = ("P_" if pure else "") + func_name(shape, vtag, lits, args)
    ps = []
    body = shape.body
    sub = {}
    for p in shape.params:
        if p in lits:
            sub[p] = literal(args[shape.params.index(p)])
        else:
            d = decl.get(p)
            ps.append(p if (pure or not d) else "%s %s" % (d, p))
    if sub:
        body = re.sub(r"\b(%s)\b" % "|".join(sub), lambda m: sub[m.group(1)], body)
    if shape.stmt:
        return "def %s(%s):\n    %s\n    return None\n" % (name, ", ".join(ps), body)
    return "def %s(%s):\n    return %s\n" % (name, ", ".join(ps), body)


# --------------------------------------------------------------------------
# building: functions are spread over modules; a function the compiler (or the C compiler) rejects is
# identified from the error text, reported, and the module rebuilt without it


def build_functions(core, funcs, nmod, jobs, tag, rounds=4, quarantine=()):
    """funcs: {fname: pyx source}.  Returns (modules, rejected): modules = list of (BuildResult, [fnames]);
    rejected = {fname: {"stage": 'cython'|'cc', "error": text}}."""
    names = sorted(n for n in funcs if n not in quarantine)
    groups = [names[i::nmod] for i in range(nmod)]
    q = sorted(n for n in funcs if n in quarantine)
    groups += [q[i::2] for i in range(2)]
    groups = [g for g in groups if g]
    rejected = {}
    done = [None] * len(groups)
    for rnd in range(rounds):
        todo = [i for i in range(len(groups)) if done[i] is None]
        if not todo:
            break
        specs, lines = [], {}
        for i in todo:
            src = ["# cython: language_level=3", ""]
            rng = []
            for n in groups[i]:
                start = len(src) + 1
                src.extend(funcs[n].rstrip("\n").split("\n"))
                src.append("")
                rng.append((start, len(src), n))
            lines[i] = rng
            specs.append(core.BuildSpec("%s_m%d" % (tag, i), "\n".join(src) + "\n"))
        for i, b in zip(todo, core.build_many(specs, jobs=jobs)):
            if b.ok:
                done[i] = b
                continue
            bad = set()
            if b.stage == "cython":
                for m in re.finditer(r"\.pyx:(\d+):\d+: (.*)", b.errors or ""):
                    ln = int(m.group(1))
                    for lo, hi, n in lines[i]:
                        if lo <= ln <= hi:
                            bad.add(n)
                            rejected.setdefault(n, {"stage": "cython", "error": m.group(2)[:300]})
            elif b.stage == "cc":
                for m in re.finditer(r"In function ‘__pyx_p[fw]_\d+%s_\d*(f_\w+)’:\n(.*)" % re.escape(b.name), b.errors or ""):
                    if "error" in m.group(2) and m.group(1) in funcs:
                        bad.add(m.group(1))
                        rejected.setdefault(m.group(1), {"stage": "cc", "error": m.group(2)[-300:]})
            if not bad:
                return None, {"<module %s>" % b.name: {"stage": b.stage, "error": (b.errors or "")[-3000:]}}
            groups[i] = [n for n in groups[i] if n not in bad]
    if any(d is None for d in done):
        return None, rejected
    return list(zip(done, groups)), rejected
