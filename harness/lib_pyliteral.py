"""Helpers for C10 (spec/PyLiteral.tla, spec/StrTable.tla): case records published by TLC ->
source text, CPython oracle (P), case descriptors, generated test modules, the parse-stage child
(real Lexicon/Parsing/StringEncoding from the snapshot), compression cells, run-time observation.
"""
import json
import os
import re
import shutil
import subprocess
import warnings

import core

QUOTES = {1: "'", 2: '"', 3: "'''", 4: '"""'}
CELLS = {"none": "0", "zlib": "1", "bz2": "2", "lzss": None, "cell3": "3"}   # -DCYTHON_COMPRESS_STRINGS=<v>; None = not defined


# --------------------------------------------------------------------------
# cases

def pfx_class(p):
    """'' 'u' 'r' 'b' 'rb' 'c' for any spelling of a prefix."""
    q = p.lower()
    if q == "c":
        return "c"
    return ("r" if "r" in q else "") + ("b" if "b" in q else "") + ("u" if "u" in q else "")


class Case(object):
    """One case published by TLC (terminal state of PyLiteral) in a use context."""
    __slots__ = ("rec", "text", "kind", "acc", "val", "ctx", "key", "rep")

    def __init__(self, rec):
        self.rec = rec
        self.kind = rec["kind"]
        self.acc = rec["acc"]
        self.rep = rec.get("rep") or None
        src = rec["src"]
        if self.rep:
            k, n, ulen = self.rep
            part = rec["parts"][0]
            head = len(part["p"]) + len(QUOTES[part["q"]])
            tail = len(QUOTES[part["q"]])
            body = src[head:len(src) - tail]
            unit = body[k:k + ulen]
            assert body == body[:k] + unit * 3, rec
            src = src[:head] + body[:k] + unit * n + src[len(src) - tail:]
            val = rec["val"]
            if self.acc:
                vlen = (len(val) - k) // 3
                uval = val[k:k + vlen]
                assert val == val[:k] + uval * 3, rec
                val = val[:k] + uval * n
            self.val = val
        else:
            self.val = rec["val"]
        self.text = "".join(map(chr, src))
        self.ctx = "const"
        self.key = self.text

    def expected(self):
        """S: the demanded observation."""
        if self.kind == "char":
            return ["int", self.val[0]]
        return [self.kind, self.val]

    def descriptor(self, ctx=None, cell="n/a"):
        r = self.rec
        feats = r["feats"]
        classes = sorted({ATOM_CLASS.get(a, "?") for p in r["parts"] for a in p["a"]})
        octp = sorted({f.split("/", 1)[1] for f in feats if f.startswith("oct_gt377/")})
        v = self.val if self.acc else []
        d = {
            "part": "literal", "family": r["fam"], "ctx": ctx or self.ctx, "kind": self.kind,
            "prefixes": "+".join(pfx_class(p["p"]) or "plain" for p in r["parts"]),
            "nparts": len(r["parts"]),
            "atom_classes": ",".join(classes),
            "oct_gt377": "+".join(octp) if octp else None,
            "name_digit": any(f.startswith("name_digit") for f in feats),
            "unknown_esc": "unknown_esc" in feats,
            "fused": bool(r["fused"]),
            "has_nul": 0 in v and self.kind != "char",
            "has_surrogate": self.kind == "str" and any(0xD800 <= c <= 0xDFFF for c in v),
            "max_cp": ("none" if not v else "ascii" if max(v) < 128 else "latin1" if max(v) < 256 else
                       "bmp" if max(v) < 0x10000 else "astral"),
            "long": bool(self.rep),
            "cell": cell,
        }
        return d

    def brief(self):
        t = self.text
        return {"text": t if len(t) <= 120 else t[:60] + "...(%d chars)" % len(t), "atoms": [p["a"] for p in self.rec["parts"]],
                "kind": self.kind, "accepted": self.acc,
                "value": self.val if len(self.val) <= 40 else self.val[:40] + ["...(%d)" % len(self.val)]}


ATOM_CLASS = {}


def load_atom_classes():
    """atom id -> class, read from the spec's table (used for descriptors and vacuity counts only)."""
    if ATOM_CLASS:
        return ATOM_CLASS
    with open(os.path.join(core.SPEC, "PyLiteral.tla")) as f:
        for m in re.finditer(r'^\s*A\("(\w+)", "(\w+)",', f.read(), re.M):
            ATOM_CLASS[m.group(1)] = m.group(2)
    return ATOM_CLASS


# --------------------------------------------------------------------------
# P: CPython

def _obs(v):
    if isinstance(v, str):
        return ["str", [ord(c) for c in v]]
    if isinstance(v, bytes):
        return ["bytes", list(v)]
    if isinstance(v, bool):
        return ["bool", int(v)]
    if isinstance(v, int):
        return ["int", v]
    if v is None:
        return ["none"]
    return ["other", type(v).__name__]


def py_eval(text):
    """CPython's reading of the literal text: observation, or 'reject'."""
    with warnings.catch_warnings():
        warnings.simplefilter("ignore")
        try:
            return _obs(eval(compile(text, "<literal>", "eval")))
        except (SyntaxError, ValueError):
            return "reject"


def py_oracle(case):
    """P for a case in the 'const' context.  c'..' is Cython-only: CPython reads the b'..' twin,
    the char literal is accepted iff that is exactly one byte."""
    if case.kind == "char":
        assert case.text[0] == "c"
        o = py_eval("b" + case.text[1:])
        if o == "reject" or len(o[1]) != 1:
            return "reject"
        return ["int", o[1][0]]
    return py_eval(case.text)


def py_doc(text):
    """P for the docstring context: __doc__ of a def whose first statement is the literal."""
    ns = {}
    with warnings.catch_warnings():
        warnings.simplefilter("ignore")
        try:
            exec(compile("def f():\n    %s\n    pass\n" % text, "<doc>", "exec"), ns)
        except (SyntaxError, ValueError):
            return "reject"
    return _obs(ns["f"].__doc__)


# --------------------------------------------------------------------------
# parse stage: the real scanner / parser / literal builders on every literal (child, snapshot)

PARSE_CHILD = r'''
import sys, io, json
import Cython
from Cython.Compiler import Errors, Parsing, Scanning, Lexicon, StringEncoding, Nodes, ExprNodes
for m in (Cython, Parsing, Scanning, Lexicon, StringEncoding):
    assert m.__file__.endswith(".py"), m.__file__
from Cython.Compiler.TreeFragment import StringParseContext
from Cython.Compiler.Scanning import PyrexScanner, StringSourceDescriptor

def parse(code, name):
    context = StringParseContext("m")
    src = StringSourceDescriptor(name, code)
    scope = context.find_module("m", pos=(name, 1, 0), need_pxd=False)
    buf = io.StringIO(code, newline=None)          # universal newlines, as Utils.open_source_file does
    sc = PyrexScanner(buf, src, source_encoding="UTF-8", scope=scope, context=context, initial_pos=(name, 1, 0))
    return Parsing.p_module(sc, False, "m", ctx=Parsing.Ctx())

cases = json.load(open(sys.argv[1]))
name = sys.argv[2]
out = []
for cid, text in cases:
    Errors.init_thread()
    err = io.StringIO()
    old = sys.stderr
    sys.stderr = err
    try:
        try:
            tree = parse("v = %s\n" % text, name)
        finally:
            sys.stderr = old
        n = Errors.get_errors_count()
        if n:
            r = ["err", "errors reported: %d" % n]
        else:
            st = tree.body
            if isinstance(st, Nodes.StatListNode):
                st = st.stats[0]
            v = st.rhs.value
            r = ["ok", type(st.rhs).__name__, list(v) if isinstance(v, bytes) else [ord(c) for c in v]]
    except Errors.CompileError as e:
        r = ["err", str(e).strip().splitlines()[-1][-160:]]
    except Exception as e:
        r = ["crash", type(e).__name__, str(e)[-160:]]
    out.append([cid, r])
print("@@" + json.dumps(out))
'''


def parse_stage(items, kind="pyx", jobs=4, workdir=None):
    """items: [(id, text)] -> {id: ["ok", node, value] | ["err", msg] | ["crash", exc, msg]}"""
    import concurrent.futures
    workdir = workdir or core.subdir("c10parse")
    items = list(items)
    if not items:
        return {}
    n = max(1, min(jobs, (len(items) + 199) // 200))
    chunks = [items[k::n] for k in range(n)]

    def one(k):
        path = os.path.join(workdir, "in_%s_%d_%d.json" % (kind, os.getpid(), k))
        with open(path, "w") as f:
            json.dump(chunks[k], f)
        r = core.run_child(PARSE_CHILD, [path, "m." + kind], with_snapshot=True, timeout=1800)
        jl = r.json_lines()
        if r.rc != 0 or not jl:
            core.die("parse-stage child failed: rc=%s %s" % (r.rc, r.err[-2000:]))
        return jl[0]

    res = {}
    with concurrent.futures.ThreadPoolExecutor(max_workers=n) as ex:
        for part in ex.map(one, range(n)):
            for cid, r in part:
                res[cid] = r
    return res


# --------------------------------------------------------------------------
# generated modules

class Module(object):
    """A test module: a tuple V of constants (contexts const / char) and functions (cstr / doc)."""

    def __init__(self, name, kind="pyx", filler=False, table=True):
        self.name = name
        self.kind = kind
        self.filler = filler    # add compressible text so that the zlib and bz2 branches of the string table qualify
        self.table = table      # do the constants live in the module string table (compression cells matter)?
        self.tuple_items = []   # (case, ctx)
        self.funcs = []         # (fname, case, ctx)

    def add(self, case, ctx):
        if ctx in ("const", "char"):
            self.tuple_items.append((case, ctx))
        else:
            self.funcs.append(("%s_%d" % (ctx, len(self.funcs)), case, ctx))

    def n(self):
        return len(self.tuple_items) + len(self.funcs)

    def source(self):
        out = []
        for fname, case, ctx in self.funcs:
            if ctx == "cstr":
                out.append("def %s():\n    cdef const char* p = %s\n    return p[:%d]\n" % (fname, case.text, len(case.val)))
            elif ctx == "doc":
                out.append("def %s():\n    %s\n    pass\n" % (fname, case.text))
            else:
                raise ValueError(ctx)
        out.append("V = (")
        for case, ctx in self.tuple_items:
            if ctx == "char":
                out.append("(<unsigned char>%s)," % case.text)
            else:
                out.append("%s," % case.text)
        out.append(")" if self.tuple_items else "())")
        if self.filler:
            out.append("W = (%s)" % ", ".join("'%s'" % w for w in FILLER))
        return "\n".join(out) + "\n"

    def entries(self):
        """[(slot, case, ctx)] where slot addresses the observation in the child's report"""
        return [(("V", k), c, ctx) for k, (c, ctx) in enumerate(self.tuple_items)] + \
               [(("F", f), c, ctx) for f, c, ctx in self.funcs]


def _filler():
    import random
    rng = random.Random(20260922)
    vocab = ["alpha", "beta", "gamma", "delta", "epsilon", "zeta", "eta", "theta", "iota", "kappa", "lambda", "mu", "nu", "xi", "omicron",
             "pi", "rho", "sigma", "tau", "upsilon", "phi", "chi", "psi", "omega"]
    return [" ".join(rng.choice(vocab) for _ in range(30)) for _ in range(50)]


FILLER = _filler()


OBS_CHILD = r'''
import sys, json, importlib
moddir, modname = sys.argv[1], sys.argv[2]
sys.path.insert(0, moddir)
mod = importlib.import_module(modname)
assert mod.__file__.endswith(".so"), mod.__file__
def obs(v):
    if isinstance(v, str): return ["str", [ord(c) for c in v]]
    if isinstance(v, bytes): return ["bytes", list(v)]
    if isinstance(v, bool): return ["bool", int(v)]
    if isinstance(v, int): return ["int", v]
    if v is None: return ["none"]
    return ["other", type(v).__name__]
V = [obs(v) for v in mod.V]
F = {}
for name in sys.argv[3:]:
    f = getattr(mod, name)
    if name.startswith("doc_"):
        F[name] = obs(f.__doc__)
    else:
        try:
            F[name] = obs(f())
        except BaseException as e:
            F[name] = ["exc", type(e).__name__]
print("@@" + json.dumps({"V": V, "F": F}))
'''


def observe(so_dir, module):
    """Import the module built in so_dir in a child and return {'V': [...], 'F': {...}} or an error tuple."""
    argf = [f for f, _, _ in module.funcs]
    r = core.run_child(OBS_CHILD, [so_dir, module.name] + argf, timeout=600, mem_mb=8192)
    jl = r.json_lines()
    if r.rc == 0 and jl:
        return jl[0]
    return ("import-failed", {"rc": r.rc, "signal": r.signal, "timed_out": r.timed_out, "stderr": r.err[-1500:]})


# --------------------------------------------------------------------------
# compression cells

_RE_BRANCH = re.compile(r"/\* compression: (\w+) \((\d+) bytes\) \*/")


def table_branches(c_file):
    """Which string-table branches the generated C file offers: {'none': n, 'zlib': n, ...} (sizes)."""
    out = {}
    with open(c_file, errors="replace") as f:
        for line in f:
            if "/* compression:" in line:
                m = _RE_BRANCH.search(line)
                if m:
                    out[m.group(1)] = int(m.group(2))
    return out


def effective_algo(cell, branches):
    """The branch the preprocessor selects for a cell (guards written by Code.generate_pystring_constants)."""
    v = CELLS[cell]
    if len(branches) <= 1:
        return "none"
    n = int(v) if v is not None else (90 if "lzss" in branches else 0)
    if n == 2 and "bz2" in branches:
        return "bz2"
    if n == 1 and "zlib" in branches:
        return "zlib"
    if n == 3 and "zstd" in branches:
        return "zstd(py>=3.14 only)"
    if 0 < n <= 90 and "lzss" in branches:
        return "lzss"
    return "none"


def build_cells(build, cells, first_cell):
    """`build` was produced by core.build_many with -DCYTHON_COMPRESS_STRINGS of `first_cell`; C-compile the same
    C file again for the other cells (same compiler command, so sanitizer / extra flags of the core are kept).
    Returns {cell: (so_dir | None, error text)}."""
    res = {first_cell: (os.path.dirname(build.so), "")}
    cmd = build.cc_cmd.split(" ")
    first_flag = "-DCYTHON_COMPRESS_STRINGS=%s" % CELLS[first_cell]
    assert first_flag in cmd, build.cc_cmd
    so_name = os.path.basename(build.so)
    def one(cell):
        d = os.path.join(build.dir, "cell_" + cell)
        os.makedirs(d, exist_ok=True)
        c2 = []
        skip = False
        for a in cmd:
            if skip:
                skip = False
                continue
            if a == first_flag:
                if CELLS[cell] is not None:
                    c2.append("-DCYTHON_COMPRESS_STRINGS=%s" % CELLS[cell])
            elif a == "-o":
                c2 += ["-o", os.path.join(d, so_name)]
                skip = True
            else:
                c2.append(a)
        p = subprocess.run(c2, capture_output=True, text=True)
        return cell, ((d, "") if p.returncode == 0 else (None, (p.stdout + p.stderr)[-3000:]))
    import concurrent.futures
    others = [c for c in cells if c != first_cell]
    if others:
        with concurrent.futures.ThreadPoolExecutor(max_workers=len(others)) as ex:
            for cell, r in ex.map(one, others):
                res[cell] = r
    return res
