"""Helpers for C09 (compile-time constants): rendering of the cases published by
spec/ConstLiteral.tla, spec/ConstFold.tla and spec/ConstPool.tla as Python source,
canonical observations, and the child-process scripts that run the real code."""
import json
from fractions import Fraction

# ---------------------------------------------------------------------------
# canonical observation of a Python value (used in the children and for P)

OBS_SRC = r'''
def obs(v):
    t = type(v)
    if t is tuple: return ["tuple"] + [obs(x) for x in v]
    if t is list: return ["list"] + [obs(x) for x in v]
    if t is frozenset: return ["frozenset"] + sorted((obs(x) for x in v), key=repr)
    if t is slice: return ["slice", obs(v.start), obs(v.stop), obs(v.step)]
    if t is float: return ["float", v.hex() if v == v else "nan"]
    if t is complex: return ["complex", obs(v.real), obs(v.imag)]
    if t is int: return ["int", str(v)]
    return [t.__name__, repr(v)]
'''
_ns = {}
exec(OBS_SRC, _ns)
obs = _ns["obs"]


def jnorm(x):
    """through JSON and back (tuples -> lists), so that observations compare equal"""
    return json.loads(json.dumps(x))


# ---------------------------------------------------------------------------
# literals (ConstLiteral.tla)

LB = 32768


def limbs_to_int(limbs):
    v = 0
    for l in reversed(limbs):
        v = v * LB + l
    return v


def literal_value(rec):
    """S: the value the specification assigns to a published literal."""
    if rec["kind"] == "int":
        return limbs_to_int(rec["limbs"])
    mant = int(rec["mant"]) if rec["mant"] else 0
    e = rec["exp10"]
    if mant == 0:
        f = 0.0
    elif e > 400:
        f = float("inf")
    elif e < -1200:
        f = 0.0
    else:
        q = Fraction(mant) * (Fraction(10) ** e)
        try:
            f = float(q)          # correctly rounded (round-half-even), like the reading of a literal
        except OverflowError:
            f = float("inf")
    return f if rec["kind"] == "float" else complex(0.0, f)


def c_literal_value(text):
    """value of a C integer literal (what gcc reads)"""
    t = text.rstrip("uUlL")
    neg = t.startswith("-")
    if neg:
        t = t[1:]
    if t[:2] in ("0x", "0X"):
        v = int(t[2:], 16)
    elif len(t) > 1 and t[0] == "0":
        v = int(t, 8)
    else:
        v = int(t, 10)
    return -v if neg else v


LITERAL_FORMS = {
    "ret": ("%s", lambda v: v),
    "inv": ("~%s", lambda v: ~v),          # ConstantFolding._handle_TildeNode: str(~v) as a C literal / hex(~v) as an object
    "neg": ("-%s", lambda v: -v),          # ConstantFolding._handle_UnaryMinusNode rewrites the literal text
    "tup": ("(%s, None)", lambda v: (v, None)),
    "add": ("(%s + 1)", lambda v: v + 1),   # folded binary operation: literal rewritten as hex(...)
}

STR_TO_NUMBER_CHILD = r'''
import sys, json
import Cython
assert Cython.__file__.endswith(".py"), Cython.__file__
from Cython import Utils
from Cython.Compiler import ExprNodes
texts = json.load(open(sys.argv[1]))
out = []
for t in texts:
    v = t.replace("_", "")          # Scanning.strip_underscores
    try:
        n = str(Utils.str_to_number(v))
    except Exception as e:
        n = "E:" + type(e).__name__
    try:
        node = ExprNodes.IntNode(("<c09>", 1, 0), value=v)
        cl = node.value_as_c_integer_string()
        ty = "object" if node.type.is_pyobject else "c"
    except Exception as e:
        cl = "E:" + type(e).__name__
        ty = "?"
    out.append([n, cl, ty])
json.dump(out, open(sys.argv[2], "w"))
print("@@" + json.dumps({"done": len(out)}))
'''

RUN_LISTS_CHILD = r'''
import sys, json, importlib
moddir, modname, funs, outfile = sys.argv[1], sys.argv[2], json.loads(sys.argv[3]), sys.argv[4]
sys.path.insert(0, moddir)
import warnings
warnings.simplefilter("ignore")
mod = importlib.import_module(modname)
if not mod.__file__.endswith(".so"):
    print("@@" + json.dumps({"fatal": "not an extension: %s" % mod.__file__})); sys.exit(3)
''' + OBS_SRC + r'''
res = {}
for i in funs:
    f = getattr(mod, "f%d" % i)
    try:
        r = [obs(x) for x in f()]
    except BaseException as e:
        r = "E:" + type(e).__name__
    res[str(i)] = r
json.dump(res, open(outfile, "w"))
print("@@" + json.dumps({"done": len(funs)}))
'''


def list_module(exprs, per_fun=120, solo=()):
    """A module whose functions f0, f1, ... each return a list of the given expressions
    (one expression per source line); the expressions whose position is in `solo` get a
    function of their own.  Returns (source, index, nfun, solo_functions) where
    index[i] = (function number, position in the list, source line) of expression i."""
    lines = ["# cython: language_level=3", ""]
    index = [None] * len(exprs)
    solo = set(solo)
    groups, cur = [], []
    for i in range(len(exprs)):
        if i in solo:
            groups.append(([i], True))
        else:
            cur.append(i)
            if len(cur) >= per_fun:
                groups.append((cur, False))
                cur = []
    if cur:
        groups.append((cur, False))
    solo_funs = []
    for nfun, (members, is_solo) in enumerate(groups):
        lines.append("def f%d():" % nfun)
        lines.append("    return [")
        for j, i in enumerate(members):
            lines.append("        %s," % exprs[i])
            index[i] = (nfun, j, len(lines))
        lines.append("    ]")
        lines.append("")
        if is_solo:
            solo_funs.append(nfun)
    return "\n".join(lines) + "\n", index, len(groups), solo_funs


# ---------------------------------------------------------------------------
# constant expressions (ConstFold.tla)

UNSYM = {"neg": "-", "pos": "+", "inv": "~", "not": "not "}


def render_rpn(rpn):
    st = []
    for t in rpn:
        k, a, b = t["t"], t["a"], t["b"]
        if k == "leaf":
            st.append(a)
        elif k == "un":
            x = st.pop()
            st.append("(%s%s)" % (UNSYM[a], x))
        elif k in ("bin", "cmp"):
            y = st.pop()
            x = st.pop()
            st.append("(%s %s %s)" % (x, a, y))
        elif k == "chain":
            z = st.pop()
            y = st.pop()
            x = st.pop()
            st.append("(%s %s %s %s %s)" % (x, a, y, b, z))
        elif k == "in":
            z = st.pop()
            y = st.pop()
            x = st.pop()
            st.append("(%s %s (%s, %s))" % (x, a, y, z))
        elif k == "cond":
            z = st.pop()
            y = st.pop()
            x = st.pop()
            st.append("(%s if %s else %s)" % (x, y, z))
        else:
            raise ValueError(t)
    if len(st) != 1:
        raise ValueError(rpn)
    return st[0]


def fold_value_obs(v):
    """observation that corresponds to a value record of ConstFold.tla"""
    if v["k"] == "int":
        return ["int", str(v["v"])]
    if v["k"] == "bool":
        return ["bool", "True" if v["v"] else "False"]
    f = v["n"] / float(2 ** v["d"])
    if v["s"]:
        f = -f
    return ["float", f.hex()]


def rpn_top(rpn):
    t = rpn[-1]
    return t["a"] if t["t"] in ("bin", "un", "cmp", "in") else t["t"]


def rpn_ops(rpn):
    return sorted({(t["a"] if t["t"] in ("bin", "un", "cmp", "in") else t["t"]) for t in rpn if t["t"] != "leaf"})


# --- the "wide" family: values beyond TLC's integers; expectation from Python integers (P), a Python
# mirror of the spec's `folded` rule and of C integer arithmetic predicts where the C path overflows

# The C expression is written with the literals as they are (`1`, `0x7FFFFFFF`: C ints), so C evaluates
# it in `int` unless a helper function widens an intermediate result: 32-bit range is the safe bound.
CINT = (-(1 << 31), (1 << 31) - 1)


class WNode(object):
    """expression tree over int literals with the operators of ConstFold.tla"""

    def __init__(self, op, *args):
        self.op, self.args = op, args

    def text(self):
        if self.op == "lit":
            return str(self.args[0])
        if self.op in UNSYM:
            return "(%s%s)" % (UNSYM[self.op], self.args[0].text())
        return "(%s %s %s)" % (self.args[0].text(), self.op, self.args[1].text())

    def value(self):
        if self.op == "lit":
            return self.args[0]
        if self.op == "neg":
            return -self.args[0].value()
        if self.op == "inv":
            return ~self.args[0].value()
        a, b = self.args[0].value(), self.args[1].value()
        return {"+": lambda: a + b, "-": lambda: a - b, "*": lambda: a * b, "//": lambda: a // b, "%": lambda: a % b,
                "<<": lambda: a << b, ">>": lambda: a >> b, "&": lambda: a & b, "|": lambda: a | b, "^": lambda: a ^ b,
                "**": lambda: a ** b}[self.op]()

    def model(self):
        """(is_literal_node, is_c_long_typed, overflow_in_c_path) following ConstFold.tla's `folded`:
        literals below 2**31 in magnitude are C longs, unary minus and `~` of a literal are literals; a binary
        node is folded iff both operands are literal nodes; otherwise it is
        evaluated at run time, in C integer arithmetic if both operands are C typed; the third component says
        that some run-time C operation has an exact result (or shift count) outside the 32-bit int range."""
        if self.op == "lit":
            v = self.args[0]
            return True, -(1 << 31) <= v < (1 << 31), False
        if self.op in ("neg", "inv"):
            lit, c, ov = self.args[0].model()
            v = self.value()
            if lit:
                # the new literal is typed by its own value: -2147483648 is a C integer although 2147483648 is not
                # (`~` maps the C range onto itself, so there it is the type of the operand)
                return True, -(1 << 31) <= v < (1 << 31), ov
            return False, c, ov or (c and not (CINT[0] <= v <= CINT[1]))
        (l1, c1, o1), (l2, c2, o2) = self.args[0].model(), self.args[1].model()
        v = self.value()
        if l1 and l2:
            return True, -(1 << 31) <= v < (1 << 31), o1 or o2
        c = c1 and c2
        ov = o1 or o2
        if c:
            b = self.args[1].value()
            if not (CINT[0] <= v <= CINT[1]):
                ov = True
            if self.op in ("<<", ">>") and not (0 <= b < 32):
                ov = True
            if self.op == "**":
                ov = ov or not (CINT[0] <= v <= CINT[1])
        return False, c, ov


def wide_cases(rng, n):
    L = lambda v: WNode("lit", v)
    smalls = [0, 1, 2, 3, 5, 7, 255, 65535, (1 << 31) - 1]
    bigs = [1 << 31, (1 << 32) + 1, (1 << 62), (1 << 63) - 1, 1 << 63, (1 << 64) + 1, 10 ** 13, 10 ** 13 + 1, 10 ** 30]
    shifts = [0, 1, 30, 31, 32, 33, 62, 63, 64, 65, 70, 100]
    out = []

    def operand(depth):
        r = rng.random()
        if depth > 0 and r < 0.35:
            return WNode(rng.choice(["inv", "neg"]), operand(depth - 1))
        if depth > 0 and r < 0.6:
            return binary(depth - 1)
        return L(rng.choice(smalls if rng.random() < 0.65 else bigs))

    def binary(depth):
        op = rng.choice(["+", "-", "*", "*", "//", "%", "<<", "<<", ">>", "&", "|", "^", "**"])
        a = operand(depth)
        if op in ("<<", ">>"):
            b = L(rng.choice(shifts))
            if op == "<<" and abs(a.value()).bit_length() > 200:
                b = L(1)
        elif op == "**":
            b = L(rng.choice([0, 1, 2, 3, 5, 31, 63, 64]))
            if abs(a.value()).bit_length() > 70:
                b = L(2)
        else:
            b = operand(depth)
            if op in ("//", "%") and b.value() == 0:
                b = L(3)
        return WNode(op, a, b)

    fixed = [WNode("<<", WNode("inv", L(1)), L(70)), WNode("<<", WNode("inv", L(0)), L(64)), WNode("<<", L(1), L(70)),
             WNode("*", WNode("*", WNode("inv", L(1)), L((1 << 31) - 1)), L((1 << 31) - 1)),
             WNode("*", WNode("*", WNode("*", WNode("inv", L(1)), L((1 << 31) - 1)), L((1 << 31) - 1)), L((1 << 31) - 1)),
             WNode("**", WNode("inv", L(2)), L(63)), WNode("**", L(3), L(63)), WNode("<<", L(1), L(63)), WNode("<<", L(1), L(64)),
             WNode("neg", WNode("<<", L(1), L(63))), WNode("-", WNode("neg", WNode("<<", L(1), L(63))), L(1)),
             WNode("inv", WNode("<<", L(1), L(64))), WNode(">>", WNode("inv", L(0)), L(70)), WNode(">>", L(1 << 64), L(64)),
             WNode("+", WNode("inv", L(5)), L((1 << 31) - 1))]
    out.extend(fixed)
    guard = 0
    while len(out) < n and guard < 50 * n:
        guard += 1
        e = binary(2) if rng.random() < 0.8 else WNode(rng.choice(["inv", "neg"]), binary(1))
        try:
            v = e.value()
        except (ValueError, ZeroDivisionError, OverflowError, TypeError):
            continue          # the expression raises in Python: no value, not a case
        if isinstance(v, float) or abs(v).bit_length() > 400:
            continue
        out.append(e)
    return out


# ---------------------------------------------------------------------------
# repeated constant sequences (ConstSeq.tla)


def _seq_text(items, kind):
    inner = ", ".join(str(i) for i in items)
    if kind == "list":
        return "[%s]" % inner
    return "(%s,)" % inner if len(items) == 1 else "(%s)" % inner


def render_seq_case(r):
    e = _seq_text(r["base"], r["kind"])
    for op in r["ops"]:
        e = "(%s * %d)" % (e, op["k"]) if op["side"] == "r" else "(%d * %s)" % (op["k"], e)
    c = r["cons"]
    o = _seq_text(c["other"], r["kind"])
    k = c["c"]
    if k in ("eq", "ne", "lt"):
        return "(%s %s %s)" % (e, {"eq": "==", "ne": "!=", "lt": "<"}[k], o)
    if k == "nested-eq":
        return "((%s, 5) == (%s, 5))" % (e, o)
    if k == "not":
        return "(not %s)" % e
    if k == "cond":
        return "(7 if %s else 8)" % e
    if k in ("or", "and"):
        return "(%s %s 5)" % (e, k)
    if k == "in":
        return "(%d in %s)" % (c["x"], e)
    if k == "len":
        return "len(%s)" % e
    if k == "ret":
        return e
    raise ValueError(r)


def seq_result_obs(res, kind):
    if res["k"] == "bool":
        return ["bool", "True" if res["b"] else "False"]
    if res["k"] == "int":
        return ["int", str(res["i"])]
    return [kind] + [["int", str(i)] for i in res["s"]]


def seq_cases(rng, n):
    """constant sequence expressions that ConstantFolding rewrites (repeat factors, slices of constant tuples,
    concatenation); every container carries a fresh int so that the cases cannot meet in the pool.
    Expectation: CPython (P) only."""
    atoms = ["0", "0.0", "-0.0", "1", "1.0", "True", "False", "None", "2147483648", "'s'"]
    out = []
    tag = 5000
    while len(out) < n:
        tag += 1
        a, b, c = (rng.choice(atoms) for _ in range(3))
        k = rng.choice(["0", "1", "2", "3", "-1", "True", "False"])
        i, j = rng.choice(["", "0", "1", "2", "-1", "-2", "5", "None"]), rng.choice(["", "0", "1", "2", "3", "-1", "5", "None"])
        t = rng.randrange(12)
        if t == 0:
            e = "(%s, %s, %d) * %s" % (a, b, tag, k)
        elif t == 1:
            # (a bool literal on the left, `True * (1, 2)`, makes Cython write `PyTuple_New(2 * True)`: C compile
            # error, i.e. a rejected program without a run-time value -- not a case here)
            e = "%s * (%s, %d)" % (rng.choice(["0", "1", "2", "3", "-1"]), a, tag)
        elif t == 2:
            e = "(%s, %d) * %s * %s" % (a, tag, k, rng.choice(["2", "3", "0"]))
        elif t == 3:
            # the folded slice may drop the tag: no -0.0 here, so that equal keys mean identical values
            a, b, c = (x if x != "-0.0" else "0.0" for x in (a, b, c))
            e = "(%s, %s, %s, %d)[%s:%s]" % (a, b, c, tag, i, j)
        elif t == 4:
            e = "(%s, %d) + (%s, %s, %d)" % (a, tag, b, c, tag)
        elif t == 5:
            e = "[%s, %s, %d] * %s" % (a, b, tag, k)
        elif t == 6:
            e = "(%s, %s, %d)[%s]" % (a, b, tag, rng.choice(["0", "1", "-1", "2", "-3"]))
        elif t == 7:
            e = "((%s, %d), (%s, %d)) * %s" % (a, tag, b, tag + 100000, k)
        elif t == 8:
            e = "len((%s, %s, %d) * %s)" % (a, b, tag, k)
        elif t == 9:
            e = "frozenset((%s, %s, %s, %d))" % (a, b, c, tag)
        elif t == 10:
            e = "(*(%s, %d), %s)" % (a, tag, b)
        else:
            e = "slice(%s, %s, %d)" % (a, b, tag)
        out.append(e)
    return out


# ---------------------------------------------------------------------------
# pooled constants (ConstPool.tla)

ATOM_TEXT = {"B": "2147483648", "W": "18446744073709551617", "Bf": "2147483648.0"}
ATOM_EQ = {"0": "n0", "0.0": "n0", "-0.0": "n0", "False": "n0", "1": "n1", "1.0": "n1", "True": "n1", "2": "n2",
           "B": "nB", "Bf": "nB", "W": "nW"}


def render_const(c, tag=None):
    """source text of a constant of ConstPool.tla; the tag atom "T" is written as the int `tag`"""
    k = c["k"]
    if k == "atom":
        if c["a"] == "T":
            return str(int(tag))
        return ATOM_TEXT.get(c["a"], c["a"])
    items = [render_const(x, tag) for x in c["items"]]
    if k == "tuple":
        if not items:
            t = "()"
        elif len(items) == 1:
            t = "(%s,)" % items[0]
        else:
            t = "(%s)" % ", ".join(items)
        return ("%s * 2" % t) if c["m"] == 2 else t
    if k == "fset":
        return "frozenset((%s,))" % ", ".join(items)
    if k == "slice":
        return "slice(%s)" % ", ".join(items)
    raise ValueError(c)


def const_obs(o, tag=None):
    """observation that corresponds to an Obs tree of ConstPool.tla"""
    k = o["k"]
    if k == "atom":
        if o["a"] == "T":
            return ["int", str(int(tag))]
        return jnorm(obs(eval(ATOM_TEXT.get(o["a"], o["a"]), {})))     # an atom name is its own literal text
    items = [const_obs(x, tag) for x in o["items"]]
    if k == "tuple":
        return ["tuple"] + items
    if k == "fset":
        return ["frozenset"] + sorted(items, key=repr)
    if k == "slice":
        return ["slice"] + items
    raise ValueError(o)


def const_key(c):
    return json.dumps(c, sort_keys=True, separators=(",", ":"))


def eq_signature(c):
    """packing only: constants with different signatures are never Python-equal, so pairs with different
    signatures cannot interfere in one module's pool"""
    k = c["k"]
    if k == "atom":
        return ATOM_EQ.get(c["a"], c["a"])
    items = [eq_signature(x) for x in c["items"]]
    if k == "tuple" and c["m"] == 2:
        items = items + items
    if k == "fset":
        return "F{" + ",".join(sorted(set(items))) + "}"
    return k[0] + "(" + ",".join(items) + ")"


POOL_FACTS_CHILD = r'''
import sys, json
import Cython
assert Cython.__file__.endswith(".py"), Cython.__file__
from Cython.Compiler import Code, ExprNodes, Errors
from Cython.Compiler.Main import compile as cy_compile, CompilationOptions
recs = []
orig = Code.GlobalState.get_py_const
def wrapped(self, prefix, dedup_key=None):
    hit = dedup_key is not None and dedup_key in self.dedup_const_index
    r = orig(self, prefix, dedup_key)
    try:
        f = sys._getframe(1)
        line = None
        while f is not None:
            s = f.f_locals.get("self")
            if isinstance(s, ExprNodes.ExprNode):
                line = s.pos[1]
                break
            f = f.f_back
        recs.append({"line": line, "prefix": prefix, "slot": str(r), "hit": bool(hit), "keyed": dedup_key is not None})
    except Exception as e:
        recs.append({"error": repr(e)})
    return r
Code.GlobalState.get_py_const = wrapped
src, outfile = sys.argv[1], sys.argv[2]
res = cy_compile(src, CompilationOptions(compiler_directives={"language_level": 3}, output_file=src[:-3] + "_facts.c"))
json.dump({"num_errors": res.num_errors, "records": recs}, open(outfile, "w"))
print("@@" + json.dumps({"done": len(recs)}))
'''
