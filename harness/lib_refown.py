"""C35 helpers: runtime of tracked objects with fault injection, renderer of RefOwn.tla
program trees to pure-Python-mode source, the recording `refnanny` stand-in (C), the child
driver, and the Python transcription of the nanny ownership automaton (RefOwn_Trace.tla)."""
import json

# --------------------------------------------------------------------------
# runtime shared by the CPython leg and the compiled leg (never compiled itself)

RUNTIME = r'''
import weakref

class InjectedError(Exception):
    pass

LOG = []
REG = {}            # name -> weakref, in creation order
S = {"cnt": 0, "k": 0, "nid": 0}


def reset(k):
    del LOG[:]
    REG.clear()
    S["cnt"] = 0
    S["k"] = k
    S["nid"] = 0


def rp(v):
    if isinstance(v, (T, It)):
        return v.n
    if v is None:
        return "None"
    if v is True:
        return "1"
    if v is False:
        return "0"
    if isinstance(v, int):
        return str(v)
    if isinstance(v, str):
        return "'" + v + "'"
    if isinstance(v, tuple):
        return "(" + ",".join([rp(x) for x in v]) + ")"
    if isinstance(v, list):
        return "[" + ",".join([rp(x) for x in v]) + "]"
    if isinstance(v, dict):
        return "{" + ",".join([rp(x) for x in v.values()]) + "}"
    return "<" + type(v).__name__ + ">"


def fall(self, op, arg=""):
    """one fallible protocol call: logged, counted, raises when it is the k-th"""
    LOG.append(self.n + "." + op + "(" + arg + ")")
    S["cnt"] += 1
    if S["cnt"] == S["k"]:
        raise InjectedError()


def _name():
    S["nid"] += 1
    return "V%d" % S["nid"]


class It(object):
    __slots__ = ("n", "t", "c", "__weakref__")

    def __init__(self, n, t):
        self.n = n
        self.t = t
        self.c = 0
        REG[n] = weakref.ref(self)

    def __next__(self):
        fall(self, "next")
        if self.c >= 2:
            raise StopIteration
        self.c += 1
        return T(_name(), self.t)


class T(object):
    __slots__ = ("n", "t", "__weakref__")

    def __init__(self, n, t):
        object.__setattr__(self, "n", n)
        object.__setattr__(self, "t", t)
        REG[n] = weakref.ref(self)

    def _fresh(self):
        return T(_name(), self.t)

    def __add__(self, o):
        fall(self, "add", rp(o)); return self._fresh()
    def __iadd__(self, o):
        fall(self, "iadd", rp(o)); return self._fresh()
    def __neg__(self):
        fall(self, "neg"); return self._fresh()
    def __lt__(self, o):
        fall(self, "lt", rp(o)); return self._fresh()
    def __getitem__(self, i):
        fall(self, "getitem", rp(i)); return self._fresh()
    def __setitem__(self, i, v):
        fall(self, "setitem", rp(i) + "," + rp(v))
    def __delitem__(self, i):
        fall(self, "delitem", rp(i))
    def __getattr__(self, name):
        fall(self, "getattr", name); return self._fresh()
    def __setattr__(self, name, v):
        fall(self, "setattr", name + "," + rp(v))
    def __call__(self, *args, **kw):
        s = ",".join([rp(x) for x in args])
        if kw:
            s += ";" + ",".join([k + "=" + rp(v) for k, v in kw.items()])
        fall(self, "call", s); return self._fresh()
    def __bool__(self):
        fall(self, "bool"); return self.t
    def __contains__(self, o):
        fall(self, "contains", rp(o)); return self.t
    def __format__(self, spec):
        fall(self, "format"); return self.n
    def __str__(self):
        fall(self, "str"); return self.n
    def __int__(self):
        fall(self, "int"); return 2 if self.t else 0
    def __index__(self):
        fall(self, "int"); return 2 if self.t else 0
    def __iter__(self):
        fall(self, "iter"); return It(_name(), self.t)
    def __enter__(self):
        fall(self, "enter"); return self._fresh()
    def __exit__(self, et, ev, tb):
        fall(self, "exit", et.__name__ if et is not None else "None")
        return self.t if et is not None else False
'''

# --------------------------------------------------------------------------
# rendering of program trees

VARIANTS = ("def", "cfunc", "closure")


def _e(e):
    t, a = e["t"], e["a"]
    if t == "name":
        return e["s"]
    if t == "none":
        return "None"
    k = [_e(c) for c in a]
    if t == "add":
        return "(%s + %s)" % (k[0], k[1])
    if t == "neg":
        return "(-%s)" % k[0]
    if t == "lt":
        return "(%s < %s)" % (k[0], k[1])
    if t == "lt3":
        return "(%s < %s < %s)" % (k[0], k[1], k[2])
    if t == "getitem":
        return "%s[%s]" % (k[0], k[1])
    if t == "getci":
        return "%s[ci]" % k[0]
    if t == "attr":
        return "%s.p" % k[0]
    if t == "call":
        sig = e["s"]
        args = {"": "", "p": "%s", "pp": "%s, %s", "pk": "%s, k=%s", "s": "*%s", "ps": "%s, *%s"}[sig] % tuple(k[1:])
        return "%s(%s)" % (k[0], args)
    if t == "cond":
        return "(%s if %s else %s)" % (k[0], k[1], k[2])
    if t == "and":
        return "(%s and %s)" % (k[0], k[1])
    if t == "or":
        return "(%s or %s)" % (k[0], k[1])
    if t == "not":
        return "(not %s)" % k[0]
    if t == "in":
        return "(%s in %s)" % (k[0], k[1])
    if t == "tuple":
        return "(%s,)" % k[0] if len(k) == 1 else "(%s)" % ", ".join(k)
    if t == "list":
        return "[%s]" % ", ".join(k)
    if t == "dict":
        return "{%s}" % ", ".join("'k%d': %s" % (i + 1, x) for i, x in enumerate(k))
    if t == "fstr":
        return 'f"{%s}{%s}"' % (k[0], k[1])
    if t == "str":
        return "str(%s)" % k[0]
    raise ValueError("expression tag " + t)


def _s(s, ind, out):
    t, a = s["t"], s["a"]
    p = "    " * ind
    if t == "pass":
        out.append(p + "pass")
    elif t == "block":
        for c in a:
            _s(c, ind, out)
    elif t == "asg":
        out.append(p + "%s = %s" % (s["s"], _e(a[0])))
    elif t == "ret":
        out.append(p + "return %s" % _e(a[0]))
    elif t == "expr":
        out.append(p + _e(a[0]))
    elif t == "unpack":
        out.append(p + "x, y = %s" % _e(a[0]))
    elif t == "setitem":
        out.append(p + "%s[%s] = %s" % (_e(a[0]), _e(a[1]), _e(a[2])))
    elif t == "setattr":
        out.append(p + "%s.p = %s" % (_e(a[0]), _e(a[1])))
    elif t == "delitem":
        out.append(p + "del %s[%s]" % (_e(a[0]), _e(a[1])))
    elif t == "dellocal":
        out.append(p + "del %s" % s["s"])
    elif t == "aug":
        out.append(p + "%s += %s" % (s["s"], _e(a[0])))
    elif t == "cint":
        out.append(p + "ci = int(%s)" % _e(a[0]))
    elif t == "if":
        out.append(p + "if %s:" % _e(a[0]))
        _s(a[1], ind + 1, out)
        if a[2]["t"] != "pass":
            out.append(p + "else:")
            _s(a[2], ind + 1, out)
    elif t == "for":
        out.append(p + "for %s in %s:" % (s["s"], _e(a[0])))
        _s(a[1], ind + 1, out)
    elif t in ("break", "continue"):
        out.append(p + t)
    elif t == "tryexc":
        out.append(p + "try:")
        _s(a[0], ind + 1, out)
        out.append(p + "except InjectedError%s:" % (" as e" if s["s"] else ""))
        _s(a[1], ind + 1, out)
    elif t == "tryfin":
        out.append(p + "try:")
        _s(a[0], ind + 1, out)
        out.append(p + "finally:")
        _s(a[1], ind + 1, out)
    elif t == "with":
        out.append(p + "with %s%s:" % (_e(a[0]), (" as " + s["s"]) if s["s"] else ""))
        _s(a[1], ind + 1, out)
    else:
        raise ValueError("statement tag " + t)


def tags(e, acc=None):
    acc = set() if acc is None else acc
    acc.add(e["t"])
    if e["t"] == "asg" and e["s"] == "G":
        acc.add("asgG")
    for c in e["a"]:
        tags(c, acc)
    return acc


def render_function(name, prog, variant):
    """source lines of the entry function `name(a, b)` for one program"""
    tg = tags(prog)
    body = []
    if "asgG" in tg:
        body.append("    global G")
    if "getci" in tg or "cint" in tg:
        body.append("    ci: cython.Py_ssize_t = 0")
    stm = []
    for s in prog["a"]:
        _s(s, 1, stm)
    body += stm or ["    pass"]
    if variant == "def":
        return ["def %s(a, b):" % name] + body
    if variant == "cfunc":
        return ["@cython.cfunc", "def %s_c(a, b):" % name] + body + ["", "def %s(a, b):" % name, "    return %s_c(a, b)" % name]
    if variant == "closure":
        return ["def %s(a, b):" % name, "    def inner():"] + ["    " + l for l in body] + ["    return inner()"]
    raise ValueError(variant)


def render_module(funcs):
    """funcs: list of (name, prog, variant) -> module source (pure Python mode)"""
    out = ["# cython: language_level=3", "import cython", "from c35rt import InjectedError", "", "G = None", ""]
    for name, prog, variant in funcs:
        out += render_function(name, prog, variant) + ["", ""]
    return "\n".join(out)


# --------------------------------------------------------------------------
# the recording stand-in for the reference nanny (plain C, independent of the compiler under test).
# Same six-function API struct as Cython/Runtime/refnanny.pyx.  Every call is recorded as
# (op, context id, object address, C line, type name); like the stock nanny it performs the real
# INCREF / DECREF, and it withholds a DECREF that the context does not own (so that the run survives
# and the event stream can be judged).

RECORDER_C = r'''
#define PY_SSIZE_T_CLEAN
#include <Python.h>
#include <string.h>
#include <stdlib.h>

typedef struct { PyObject *obj; long n; } own_t;
typedef struct ctx_s { long id; own_t *own; int nown, cap; } ctx_t;
typedef struct { char op; long ctx; void *obj; long line; const char *tp; const char *fn; } ev_t;

static ev_t *evs = NULL; static long nev = 0, capev = 0; static long next_ctx = 0; static int recording = 0;

static void rec(char op, long ctx, void *obj, long line, const char *tp, const char *fn) {
    if (!recording) return;
    if (nev == capev) { capev = capev ? capev * 2 : 4096; evs = (ev_t*)realloc(evs, capev * sizeof(ev_t)); }
    evs[nev].op = op; evs[nev].ctx = ctx; evs[nev].obj = obj; evs[nev].line = line; evs[nev].tp = tp; evs[nev].fn = fn; nev++;
}
static own_t *find(ctx_t *c, PyObject *o, int add) {
    int i;
    for (i = 0; i < c->nown; i++) if (c->own[i].obj == o) return &c->own[i];
    if (!add) return NULL;
    if (c->nown == c->cap) { c->cap = c->cap ? c->cap * 2 : 16; c->own = (own_t*)realloc(c->own, c->cap * sizeof(own_t)); }
    c->own[c->nown].obj = o; c->own[c->nown].n = 0;
    return &c->own[c->nown++];
}
static const char *tpname(PyObject *o) { return o ? Py_TYPE(o)->tp_name : "NULL"; }

static void N_GOTREF(void *vc, PyObject *o, Py_ssize_t line) {
    ctx_t *c = (ctx_t*)vc; if (!c) return;
    rec('G', c->id, o, (long)line, tpname(o), NULL);
    if (o) find(c, o, 1)->n++;
}
static int giveref(ctx_t *c, PyObject *o) {
    own_t *w; if (!o) return 0;
    w = find(c, o, 0);
    if (!w || w->n <= 0) return 0;
    w->n--; return 1;
}
static void N_GIVEREF(void *vc, PyObject *o, Py_ssize_t line) {
    ctx_t *c = (ctx_t*)vc; if (!c) return;
    rec('V', c->id, o, (long)line, tpname(o), NULL);
    giveref(c, o);
}
static void N_INCREF(void *vc, PyObject *o, Py_ssize_t line) {
    ctx_t *c = (ctx_t*)vc;
    Py_XINCREF(o);
    if (!c) return;
    rec('I', c->id, o, (long)line, tpname(o), NULL);
    if (o) find(c, o, 1)->n++;
}
static void N_DECREF(void *vc, PyObject *o, Py_ssize_t line) {
    ctx_t *c = (ctx_t*)vc;
    if (!c) { Py_XDECREF(o); return; }
    rec('D', c->id, o, (long)line, tpname(o), NULL);
    if (giveref(c, o)) Py_DECREF(o);
}
static void *N_Setup(const char *name, Py_ssize_t line, const char *file) {
    ctx_t *c = (ctx_t*)calloc(1, sizeof(ctx_t));
    c->id = ++next_ctx;
    rec('S', c->id, NULL, (long)line, "", name);
    return c;
}
static void N_Finish(void **pc) {
    ctx_t *c; if (!pc || !*pc) return;
    c = (ctx_t*)*pc;
    rec('F', c->id, NULL, 0, "", NULL);
    free(c->own); free(c); *pc = NULL;
}

typedef struct {
    void (*INCREF)(void*, PyObject*, Py_ssize_t);
    void (*DECREF)(void*, PyObject*, Py_ssize_t);
    void (*GOTREF)(void*, PyObject*, Py_ssize_t);
    void (*GIVEREF)(void*, PyObject*, Py_ssize_t);
    void* (*SetupContext)(const char*, Py_ssize_t, const char*);
    void (*FinishContext)(void**);
} api_t;
static api_t api = { N_INCREF, N_DECREF, N_GOTREF, N_GIVEREF, N_Setup, N_Finish };

static PyObject *py_start(PyObject *self, PyObject *a) { nev = 0; recording = 1; Py_RETURN_NONE; }
static PyObject *py_take(PyObject *self, PyObject *a) {
    long i; PyObject *l;
    recording = 0;
    l = PyList_New(nev);
    for (i = 0; i < nev; i++) {
        char op[2]; op[0] = evs[i].op; op[1] = 0;
        PyList_SET_ITEM(l, i, Py_BuildValue("(slnlss)", op, evs[i].ctx, (Py_ssize_t)(size_t)evs[i].obj, evs[i].line,
                                            evs[i].tp, evs[i].fn ? evs[i].fn : ""));
    }
    nev = 0;
    return l;
}
static PyMethodDef meths[] = { {"start", py_start, METH_NOARGS, ""}, {"take", py_take, METH_NOARGS, ""}, {NULL, NULL, 0, NULL} };
static struct PyModuleDef moddef = { PyModuleDef_HEAD_INIT, "refnanny", "recording refnanny stand-in", -1, meths };
PyMODINIT_FUNC PyInit_refnanny(void) {
    PyObject *m = PyModule_Create(&moddef);
    if (!m) return NULL;
    PyModule_AddObject(m, "RefNannyAPI", PyLong_FromVoidPtr((void*)&api));
    PyModule_AddIntConstant(m, "IS_RECORDER", 1);
    return m;
}
'''

# --------------------------------------------------------------------------
# child driver: runs cases [(function name, k)] of one module, CPython leg (module exec'd from the
# .py source) or compiled leg (.so), optionally with a nanny module importable as `refnanny`.

DRIVER = r'''
import sys, json, gc, importlib, importlib.util, os
req = json.load(open(sys.argv[1]))
import c35rt as rt
nanny = None
if req.get("nanny"):
    import refnanny as nanny
    if req["nanny"] == "recorder":
        assert getattr(nanny, "IS_RECORDER", 0) == 1, nanny.__file__
    else:
        assert not hasattr(nanny, "IS_RECORDER") and nanny.__file__.endswith(".so"), nanny.__file__
if req["leg"] == "P":
    spec = importlib.util.spec_from_file_location(req["module"], req["source"])
    mod = importlib.util.module_from_spec(spec)
    sys.modules[req["module"]] = mod
    spec.loader.exec_module(mod)
    assert mod.__file__.endswith(".py")
else:
    mod = importlib.import_module(req["module"])
    assert mod.__file__.endswith(req["suffix"]), mod.__file__
rec_on = req.get("nanny") == "recorder"
sys.stdout.write("@@" + json.dumps({"ready": 1}) + "\n")
gc.disable()
for name, k in req["cases"]:
    fn = getattr(mod, name)
    rt.reset(k)
    mod.G = None
    ARGS = [rt.T("a", True), rt.T("b", False)]
    gc.collect()
    sys.stdout.write("@@" + json.dumps({"begin": [name, k]}) + "\n")
    sys.stdout.flush()
    if rec_on:
        nanny.start()
    exc = ""
    res = None
    try:
        res = fn(ARGS[0], ARGS[1])
    except BaseException as e:
        exc = type(e).__name__
        e = None
    evs = nanny.take() if rec_on else None
    gc.collect()
    alive = []
    for nm in list(rt.REG):
        o = rt.REG[nm]()
        if o is not None:
            alive.append({"nm": nm, "rc": sys.getrefcount(o) - 2})
        o = None
    out = {"f": name, "k": k, "exc": exc, "log": list(rt.LOG), "res": "" if exc else rt.rp(res), "glob": rt.rp(mod.G),
           "alive": alive, "cnt": rt.S["cnt"]}
    # release everything the driver and the module hold: nothing may survive
    res = None
    mod.G = None
    del ARGS[:]
    gc.collect()
    out["left"] = [nm for nm in rt.REG if rt.REG[nm]() is not None]
    if evs is not None:
        # compact: object addresses -> small ints per case
        ids = {}
        tr = []
        for op, ctx, obj, line, tp, fnname in evs:
            oid = 0 if obj == 0 else ids.setdefault(obj, len(ids) + 1)
            tr.append([op, ctx, oid, line, tp if op in "GVID" else fnname])
        out["trace"] = tr
    sys.stdout.write("@@" + json.dumps(out) + "\n")
    sys.stdout.flush()
sys.stdout.write("@@" + json.dumps({"done": 1}) + "\n")
'''


# --------------------------------------------------------------------------
# Python transcription of RefOwn_Trace.tla (the nanny ownership automaton), used on every trace;
# TLC validates a sample of the same traces and both verdicts must agree.

def judge_trace(tr):
    """tr: list of [op, ctx, obj, line, info] -> list of (kind, index) violations.
    kinds: null (non-X operation on NULL), underflow (DECREF/GIVEREF of a reference the context does not
    own), leak (owned references left at FinishContext), late (event for a finished / unknown context),
    unfinished (context never finished)."""
    owned = {}
    state = {}
    bad = []
    for i, ev in enumerate(tr):
        op, ctx, obj = ev[0], ev[1], ev[2]
        if op == "S":
            if ctx in state:
                bad.append(("late", i))
            state[ctx] = "open"
            owned[ctx] = {}
            continue
        if state.get(ctx) != "open":
            bad.append(("late", i))
            continue
        if op == "F":
            if any(n > 0 for n in owned[ctx].values()):
                bad.append(("leak", i))
            state[ctx] = "done"
            continue
        if obj == 0:
            bad.append(("null", i))
            continue
        o = owned[ctx]
        if op in "GI":
            o[obj] = o.get(obj, 0) + 1
        else:
            if o.get(obj, 0) <= 0:
                bad.append(("underflow", i))
            else:
                o[obj] -= 1
    for ctx, s in state.items():
        if s == "open":
            bad.append(("unfinished", len(tr)))
    return bad


def src_of(prog, name="f", variant="def"):
    return "\n".join(render_function(name, prog, variant))
