"""Helpers and child programs of the C46 check (harness/checks/c46.py).

Run as a child (`python lib_deptree.py <command> ...`, snapshot of /repo on PYTHONPATH):

  memo   <cases.ndjson> <out.ndjson>        replay TLC query histories (spec/DepTree.tla) on the real
                                            DependencyTree with injected edges
  sweep  <n> <lo> <hi> <out.ndjson>         all graphs on n nodes with edge-set ids lo..hi-1, both orders,
                                            all query pairs: the spec's invariants on the real object
  files  <cases.ndjson> <out.ndjson> <dir>  query histories on real .pxd trees
  orders <graphs.ndjson> <out.ndjson> <dir> materialise .pxd trees, report the real successor orders
  build  <hists.ndjson> <out.ndjson> <dir>  replay edit/touch/cythonize histories (spec/DepTreeBuild.tla)
                                            with the real cythonize() in fresh (forked) processes
  scan   <cases.ndjson> <out.ndjson> <dir>  generated sources (spec/DepTreeSrc.tla): scanner result and the
                                            files the compiler really opens

Everything that is imported by c46.py itself (rendering, closures) is plain Python
and does not import Cython.
"""
import json
import os
import sys

BASE_TIME = 1500000000
TIME_STEP = 1000


def ltime(t):
    """logical time stamp of the spec -> mtime on disk (far in the past)"""
    return BASE_TIME + TIME_STEP * t


# --------------------------------------------------------------------------
# pure helpers (also the independent oracle P)

def closure(succ, n):
    """reflexive-transitive closure; succ: dict/list node -> iterable of nodes"""
    seen = {n}
    todo = [n]
    while todo:
        x = todo.pop()
        for y in succ[x]:
            if y not in seen:
                seen.add(y)
                todo.append(y)
    return seen


def file_edges(mods, haspxd, pxis, cim, inc):
    """reference edge relation of spec/DepTreeBuild.tla on file names"""
    e = {}
    for f in cim:
        out = set(x + ".pxd" for x in cim[f]) | set(inc[f])
        if f.endswith(".pyx") and f[:-4] in haspxd:
            out.add(f[:-4] + ".pxd")
        e[f] = out
    return e


def _pick(options, *key):
    import zlib
    return options[zlib.crc32(repr(key).encode()) % len(options)]


def render(fname, cim, inc, universe_mods, universe_pxis, salt=0):
    """Text of one file of a DepTreeBuild tree.  `cim`: modules cimported, `inc`: .pxi names included.
    Real statements come in varying syntactic forms; decoys (comments / string literals that LOOK like
    statements) refer to existing files that are NOT dependencies, so a scanner that falls for them
    produces an observable wrong dependency."""
    base, ext = fname.rsplit(".", 1)
    not_cim = sorted(set(universe_mods) - set(cim))
    not_inc = sorted(set(universe_pxis) - set(inc))
    out = ["# %s" % fname]
    for x in not_cim:
        out.append(_pick(["# cimport %s", "#cimport %s", "    # from %s cimport t", "# x; cimport %s"], fname, x, salt) % x)
    for i in not_inc:
        out.append(_pick(['# include "%s"', "#include '%s'"], fname, i, salt) % i)
    if ext == "pyx":
        if not_cim or not_inc:
            out.append('DOC_%s = """' % base)
            for x in not_cim:
                out.append("cimport %s" % x)
                out.append("from %s cimport t_%s" % (x, x))
            for i in not_inc:
                out.append('include "%s"' % i)
                out.append("include '%s'" % i)
            out.append('"""')
            for x in not_cim:
                out.append("S_%s_%s = 'cimport %s'   # cimport %s" % (base, x, x, x))
                out.append("R_%s_%s = '''\\\ncimport %s\n'''" % (base, x, x))
            for i in not_inc:
                out.append("T_%s = \"include '%s'\"" % (base, i))
        forms = ["cimport %(x)s", "from %(x)s cimport t_%(x)s", "cimport %(x)s as al_%(x)s",
                 "from %(x)s cimport t_%(x)s as u_%(x)s", "from %(x)s cimport (\n    t_%(x)s,\n)",
                 "cimport  %(x)s  # the real one", "from %(x)s \\\n    cimport t_%(x)s"]
    else:
        forms = ["cimport %(x)s", "cimport %(x)s as al_%(x)s", "cimport  %(x)s  # the real one"]
    for x in sorted(cim):
        if x == base and ext == "pyx":
            out.append("cimport %s" % x)
        else:
            out.append(_pick(forms, fname, x, salt) % {"x": x})
    for i in sorted(inc):
        out.append(_pick(['include "%s"', "include '%s'", 'include  "%s"  # really'], fname, i, salt) % i)
    if ext == "pxd":
        out.append("ctypedef int t_%s" % base)
    if ext == "pyx":
        out.append("def f_%s():\n    return 1" % base)
    return "\n".join(out) + "\n"


# --------------------------------------------------------------------------
# children

def _import_cython():
    import Cython.Utils as U
    from Cython.Build import Dependencies as D
    for m in (U, D):
        assert m.__file__.endswith(".py"), m.__file__
    return U, D


def _memo_of(tree):
    """the memo of all_dependencies(): _transitive_cache[(immediate_dependencies, set.union)]"""
    tc = getattr(tree, "_transitive_cache", None)
    if not isinstance(tc, dict):
        return None
    for (extract, merge), seen in tc.items():
        if merge is set.union or getattr(extract, "__name__", "") in ("immediate_dependencies", "wrapper"):
            return seen
    return {} if not tc else None


def _fake_tree_class(D):
    class FakeTree(D.DependencyTree):
        """the real DependencyTree; only the two edge sources are replaced"""
        def __init__(self, succ, payload):
            D.DependencyTree.__init__(self, None, quiet=True)
            self._succ = succ
            self._payload = payload

        def cimported_files(self, filename):
            return tuple(self._succ[filename])

        def included_files(self, filename):
            return set(self._payload.get(filename, ()))
    return FakeTree


def _node(k):
    return "n%d.pxd" % k


def _replay_queries(tree, n, succ_sets, payload, qs, want_keys=None):
    """run queries; returns (mismatch or None, keyset_differs)"""
    keydiff = 0
    clo = {}
    for step, q in enumerate(qs):
        qn = _node(q["q"]) if isinstance(q, dict) else _node(q)
        qi = q["q"] if isinstance(q, dict) else q
        try:
            got = tree.all_dependencies(qn)
        except Exception as ex:
            return {"step": step, "what": "exception", "got": "%s: %s" % (type(ex).__name__, str(ex)[:200])}, keydiff
        if isinstance(q, dict):
            want = set(_node(k) for k in q["res"])
        else:
            if qi not in clo:
                clo[qi] = closure(succ_sets, qi)
            want = set(_node(k) for k in clo[qi])
        want_full = set(want)
        for k in list(want):
            want_full.update(payload.get(k, ()))
        if set(got) != want_full:
            return {"step": step, "what": "result", "q": qi, "got": sorted(got), "want": sorted(want_full)}, keydiff
        memo = _memo_of(tree)
        if memo is not None:
            for k, v in memo.items():
                ki = int(k[1:-4])
                if ki not in clo:
                    clo[ki] = closure(succ_sets, ki)
                w = set(_node(j) for j in clo[ki])
                for j in list(w):
                    w.update(payload.get(j, ()))
                if set(v) != w:
                    return {"step": step, "what": "memo", "q": qi, "key": ki, "got": sorted(v), "want": sorted(w)}, keydiff
            if qn not in memo:
                keydiff += 1
            elif isinstance(q, dict) and sorted(int(k[1:-4]) for k in memo) != sorted(q["keys"]):
                keydiff += 1
    return None, keydiff


def child_memo(cases_f, out_f):
    U, D = _import_cython()
    FakeTree = _fake_tree_class(D)
    n_cases = n_q = keydiff = nomemo = 0
    with open(cases_f) as f, open(out_f, "w") as out:
        for line in f:
            c = json.loads(line)
            n = c["n"]
            succ = {_node(k + 1): [_node(j) for j in c["succ"][k]] for k in range(n)}
            succ_sets = {k + 1: c["succ"][k] for k in range(n)}
            payload = {_node(k): {"i%d.pxi" % k} for k in range(1, n + 1) if k % 2 == 0}
            tree = FakeTree(succ, payload)
            mm, kd = _replay_queries(tree, n, succ_sets, payload, c["qs"])
            if _memo_of(tree) is None:
                nomemo += 1
            n_cases += 1
            n_q += len(c["qs"])
            keydiff += kd
            if mm is not None:
                mm["case"] = c
                out.write(json.dumps(mm) + "\n")
    print("@@" + json.dumps({"cases": n_cases, "queries": n_q, "keyset_differs": keydiff, "no_memo": nomemo}))


def graph_of_id(n, gid, desc):
    succ = []
    for k in range(n):
        row = [j + 1 for j in range(n) if (gid >> (k * n + j)) & 1]
        if desc:
            row.reverse()
        succ.append(row)
    return succ


def child_sweep(n, lo, hi, out_f):
    U, D = _import_cython()
    FakeTree = _fake_tree_class(D)
    n_cases = n_q = keydiff = 0
    nodes = list(range(1, n + 1))
    seqs = [(a, b) for a in nodes for b in nodes]
    with open(out_f, "w") as out:
        for gid in range(lo, hi):
            for desc in (False, True):
                succ_l = graph_of_id(n, gid, desc)
                if desc and all(len(r) < 2 for r in succ_l):
                    continue
                succ = {_node(k + 1): [_node(j) for j in succ_l[k]] for k in range(n)}
                succ_sets = {k + 1: succ_l[k] for k in range(n)}
                bad = None
                for qs in seqs:
                    tree = FakeTree(succ, {})
                    mm, kd = _replay_queries(tree, n, succ_sets, {}, qs)
                    n_cases += 1
                    n_q += 2
                    keydiff += kd
                    if mm is not None and bad is None:
                        mm["case"] = {"n": n, "succ": succ_l, "qs": list(qs)}
                        bad = mm
                if bad is not None:
                    out.write(json.dumps(bad) + "\n")
    print("@@" + json.dumps({"cases": n_cases, "queries": n_q, "keyset_differs": keydiff}))


def _write_pxd_tree(d, n, succ_l):
    os.makedirs(d, exist_ok=True)
    for k in range(1, n + 1):
        with open(os.path.join(d, _node(k)), "w") as f:
            f.write("# node %d\n" % k)
            for j in succ_l[k - 1]:
                f.write("cimport n%d\n" % j)
            f.write("ctypedef int t_n%d\n" % k)


def _real_tree(D, d):
    from Cython.Compiler.Main import Context
    from Cython.Compiler.Options import CompilationOptions, default_options
    from Cython.Compiler.Options import get_directive_defaults
    ctx = Context([d], get_directive_defaults(), options=CompilationOptions(default_options))
    return D.DependencyTree(ctx, quiet=True)


def child_orders(graphs_f, out_f, workdir):
    """materialise each graph as a directory of .pxd files; report, per graph, the order in which
    the real cimported_files() lists the successors (it depends on set iteration order)."""
    U, D = _import_cython()
    with open(graphs_f) as f, open(out_f, "w") as out:
        for idx, line in enumerate(f):
            g = json.loads(line)
            n = g["n"]
            d = os.path.join(workdir, "g%d" % g["id"])
            _write_pxd_tree(d, n, g["succ"])
            tree = _real_tree(D, d)
            obs = []
            for k in range(1, n + 1):
                fs = tree.cimported_files(os.path.join(d, _node(k)))
                obs.append([int(os.path.basename(p)[1:-4]) for p in fs if os.path.dirname(p) == d] +
                           [-1 for p in fs if os.path.dirname(p) != d])
            out.write(json.dumps({"id": g["id"], "n": n, "succ": obs}) + "\n")
    print("@@" + json.dumps({"graphs": idx + 1}))


def child_files(cases_f, out_f, workdir):
    """cases: {id, n, succ (observed order), qs:[{q,res,keys}]}; the trees exist already (child_orders)."""
    U, D = _import_cython()
    n_cases = n_q = keydiff = 0
    with open(cases_f) as f, open(out_f, "w") as out:
        for line in f:
            c = json.loads(line)
            n = c["n"]
            d = os.path.join(workdir, "g%d" % c["id"])
            tree = _real_tree(D, d)
            succ_sets = {k + 1: c["succ"][k] for k in range(n)}
            mm = None
            clo = {}
            for step, q in enumerate(c["qs"]):
                try:
                    got = tree.all_dependencies(os.path.join(d, _node(q["q"])))
                except Exception as ex:
                    mm = {"step": step, "what": "exception", "got": "%s: %s" % (type(ex).__name__, str(ex)[:200])}
                    break
                gotn = sorted(os.path.relpath(p, d) for p in got)
                want = sorted(_node(k) for k in q["res"])
                if gotn != want:
                    mm = {"step": step, "what": "result", "q": q["q"], "got": gotn, "want": want}
                    break
                memo = _memo_of(tree)
                if memo is not None:
                    for k, v in memo.items():
                        ki = int(os.path.basename(k)[1:-4])
                        if ki not in clo:
                            clo[ki] = closure(succ_sets, ki)
                        w = sorted(_node(j) for j in clo[ki])
                        g = sorted(os.path.relpath(p, d) for p in v)
                        if g != w:
                            mm = {"step": step, "what": "memo", "q": q["q"], "key": ki, "got": g, "want": w}
                            break
                    if mm:
                        break
                    if sorted(int(os.path.basename(k)[1:-4]) for k in memo) != sorted(q["keys"]):
                        keydiff += 1
            n_cases += 1
            n_q += len(c["qs"])
            if mm is not None:
                mm["case"] = c
                out.write(json.dumps(mm) + "\n")
    print("@@" + json.dumps({"cases": n_cases, "queries": n_q, "keyset_differs": keydiff}))


# ---- build histories -------------------------------------------------------

FOREIGN_C = "/* Generated by Cython 0.29.37 */\n\n#error this file was generated by another Cython version\n"


def _set_mtime(path, t):
    os.utime(path, (ltime(t), ltime(t)))


def _cstat(path):
    try:
        st = os.stat(path)
    except OSError:
        return None
    with open(path, "rb") as f:
        head = f.read(64)
    return (st.st_mtime_ns, st.st_size, st.st_ino, head)


def _fresh_cythonize(d, mods, want_reads=True):
    """fork: the child has all Cython modules imported but no memo table filled (nothing was
    compiled or scanned in this process before) -- the same state as a new interpreter that just
    imported Cython.Build.  Returns the child's report."""
    r, w = os.pipe()
    pid = os.fork()
    if pid == 0:
        rc = 0
        try:
            os.close(r)
            os.chdir(d)
            import io
            from Cython.Build import Dependencies as D
            rep = {"deps": {}, "reads": {}, "error": None}
            state = {"cur": None}
            reads = rep["reads"]

            def hook(event, args):
                if event == "open" and state["cur"] is not None and isinstance(args[0], str):
                    p = args[0]
                    if p.endswith((".pyx", ".pxd", ".pxi")):
                        ap = os.path.abspath(p)
                        if os.path.dirname(ap) == d:
                            reads.setdefault(state["cur"], set()).add(os.path.basename(ap))
            sys.addaudithook(hook)
            orig_one = D.cythonize_one

            def one(pyx_file, *a, **k):
                state["cur"] = os.path.basename(pyx_file)
                try:
                    return orig_one(pyx_file, *a, **k)
                finally:
                    state["cur"] = None
            D.cythonize_one = one
            so, se = sys.stdout, sys.stderr
            sys.stdout = sys.stderr = buf = io.StringIO()
            try:
                D.cythonize("*.pyx", quiet=True)
            except BaseException as ex:
                rep["error"] = "%s: %s" % (type(ex).__name__, str(ex)[:300])
            finally:
                sys.stdout, sys.stderr = so, se
            rep["output"] = buf.getvalue()[-2000:]
            tree = D._dep_tree
            if rep["error"] is None:
                for m in mods:
                    try:
                        rep["deps"][m] = sorted(os.path.basename(os.path.abspath(p)) for p in tree.all_dependencies(m + ".pyx"))
                    except BaseException as ex:
                        rep["deps"][m] = ["!%s" % type(ex).__name__]
            rep["reads"] = {k: sorted(v) for k, v in reads.items()}
            os.write(w, json.dumps(rep).encode())
        except BaseException as ex:
            try:
                os.write(w, json.dumps({"error": "child: %s: %s" % (type(ex).__name__, str(ex)[:300])}).encode())
            except BaseException:
                pass
            rc = 3
        finally:
            os._exit(rc)
    os.close(w)
    chunks = []
    while True:
        b = os.read(r, 65536)
        if not b:
            break
        chunks.append(b)
    os.close(r)
    _, status = os.waitpid(pid, 0)
    try:
        rep = json.loads(b"".join(chunks).decode())
    except ValueError:
        rep = {"error": "child died, status %d" % status}
    return rep


def replay_build_history(h, d, salt=0):
    """returns a mismatch dict or None; also the number of cythonize steps"""
    mods, haspxd, pxis = sorted(h["mods"]), set(h["haspxd"]), sorted(h["pxis"])
    pxi_files = [i + ".pxi" for i in pxis]
    files = [m + ".pyx" for m in mods] + [m + ".pxd" for m in sorted(haspxd)] + pxi_files
    cim = {f: set(h["init"]["cim"][f]) for f in files}
    inc = {f: set(h["init"]["inc"][f]) for f in files}
    os.makedirs(d)

    def write(f, t):
        with open(os.path.join(d, f), "w") as fh:
            fh.write(render(f, cim[f], inc[f], sorted(haspxd), pxi_files, salt))
        _set_mtime(os.path.join(d, f), t)

    for f in files:
        write(f, 1)
    nb = 0
    for k, st in enumerate(h["hist"]):
        op = st["op"]
        if op == "touch":
            _set_mtime(os.path.join(d, st["f"]), st["t"])
        elif op in ("cimport", "uncimport"):
            (cim[st["f"]].add if op == "cimport" else cim[st["f"]].discard)(st["x"])
            write(st["f"], st["t"])
        elif op in ("include", "uninclude"):
            (inc[st["f"]].add if op == "include" else inc[st["f"]].discard)(st["x"])
            write(st["f"], st["t"])
        elif op == "deletec":
            os.remove(os.path.join(d, st["f"] + ".c"))
        elif op == "foreignc":
            p = os.path.join(d, st["f"] + ".c")
            with open(p, "w") as fh:
                fh.write(FOREIGN_C)
            _set_mtime(p, st["t"])
        elif op == "cythonize":
            nb += 1
            before = {m: _cstat(os.path.join(d, m + ".c")) for m in mods}
            rep = _fresh_cythonize(d, mods)
            if rep.get("error"):
                return {"step": k, "what": "error", "got": rep["error"], "output": rep.get("output", "")}, nb
            regen = []
            for m in mods:
                after = _cstat(os.path.join(d, m + ".c"))
                if after is None:
                    return {"step": k, "what": "no-c-file", "module": m, "output": rep.get("output", "")}, nb
                if after != before[m]:
                    regen.append(m)
                    if not after[3].startswith(b"/* Generated by Cython "):
                        return {"step": k, "what": "c-file-content", "module": m, "got": after[3].decode("latin1")}, nb
                    _set_mtime(os.path.join(d, m + ".c"), st["t"])
            want = sorted(st["regen"])
            if regen != want:
                return {"step": k, "what": "regen", "got": regen, "want": want, "output": rep.get("output", "")}, nb
            for m in mods:
                wd = sorted(st["deps"][m])
                if rep["deps"].get(m) != wd:
                    return {"step": k, "what": "deps", "module": m, "got": rep["deps"].get(m), "want": wd}, nb
                if m in regen:
                    rd = rep["reads"].get(m + ".pyx", [])
                    if rd != wd:
                        return {"step": k, "what": "reads", "module": m, "got": rd, "want": wd}, nb
        else:
            raise ValueError(op)
    return None, nb


def child_build(hists_f, out_f, workdir):
    U, D = _import_cython()
    # Warm-up: one plain compilation (Cython.Compiler only, no Cython.Build code involved) of an
    # unrelated file, so that the forked workers inherit the loaded utility code, scanner tables
    # etc. and start fast.  Nothing is ever scanned by Cython.Build.Dependencies in this process:
    # its memo tables are empty at every fork (asserted below) -- the state of a fresh interpreter.
    import distutils.extension  # noqa
    import concurrent.futures.process  # noqa  (cythonize() imports it)
    import gc
    from Cython.Compiler import Main
    wd = os.path.join(workdir, "warmup")
    os.makedirs(wd, exist_ok=True)
    with open(os.path.join(wd, "warm.pxd"), "w") as fh:
        fh.write("ctypedef int t_warm\n")
    with open(os.path.join(wd, "warm.pyx"), "w") as fh:
        fh.write("def f_warm():\n    return 1\n")
    Main.compile_single(os.path.join(wd, "warm.pyx"), Main.CompilationOptions(Main.default_options), None)
    assert D._dep_tree is None and D.parse_dependencies.cache_info().currsize == 0
    gc.collect()
    gc.freeze()     # fewer copy-on-write faults in the forked workers
    n = nb = 0
    with open(hists_f) as f, open(out_f, "w") as out:
        for idx, line in enumerate(f):
            h = json.loads(line)
            d = os.path.join(workdir, "h%d" % h.get("id", idx))
            mm, b = replay_build_history(h, d, salt=h.get("salt", 0))
            n += 1
            nb += b
            if mm is not None:
                mm["hist_id"] = h.get("id", idx)
                mm["hist"] = h
                out.write(json.dumps(mm) + "\n")
                out.flush()
    assert D._dep_tree is None and D.parse_dependencies.cache_info().currsize == 0, "driver process must never scan"
    print("@@" + json.dumps({"histories": n, "cythonize_steps": nb}))


# ---- generated sources (spec/DepTreeSrc.tla) --------------------------------

FORM_TEXT = {
    "cim_b": "cimport b", "cim_c": "cimport c",
    "from_b": "from b cimport t_b", "from_c": "from c cimport t_c",
    "cimsub": "cimport p.s", "fromsub": "from p.s cimport t_s",
    "frompkg": "from p cimport s", "frompkgpar": "from p cimport (\n    s,\n)",
    "reldot": "from . cimport s", "relmod": "from .s cimport t_s",
    "inc": 'include "i.pxi"', "inc1": "include 'i.pxi'", "incns": 'include"i.pxi"',
}
QUOTE = {"s1": "'", "d1": '"', "s3": "'" * 3, "d3": '"' * 3}
UNIVERSE = {
    "b.pxd": "ctypedef int t_b\n", "c.pxd": "ctypedef int t_c\n", "i.pxi": "# top-level include file\n",
    "p/__init__.py": "", "p/__init__.pxd": "# package p\n", "p/s.pxd": "ctypedef int t_s\n",
    "p/c.pxd": "ctypedef int t_pc\n", "p/i.pxi": "# include file of package p\n",
}
RESOLVE = {  # mirror of Resolve() in the spec, used only to attribute a missed file to statements
    "cim_b": ["b.pxd"], "from_b": ["b.pxd"], "cim_c": ["c.pxd"], "from_c": ["c.pxd"],
    "cimsub": ["p/s.pxd"], "fromsub": ["p/s.pxd"], "relmod": ["p/s.pxd"],
    "frompkg": ["p/__init__.pxd", "p/s.pxd"], "frompkgpar": ["p/__init__.pxd", "p/s.pxd"],
    "reldot": ["p/__init__.pxd", "p/s.pxd"],
}


def resolve(form, loc):
    if form in RESOLVE:
        return list(RESOLVE[form])
    return ["p/i.pxi" if loc == "pkg" else "i.pxi"]


def render_source(toks):
    """text of a program of spec/DepTreeSrc.tla"""
    out = []
    q = None
    for a in toks:
        if a.startswith("s:"):
            out.append(FORM_TEXT[a[2:]])
        elif a.startswith("t:"):
            out.append(FORM_TEXT[a[2:]] + " ")
        elif a == "asg":
            out.append("v = ")
        elif a == "cont":
            out.append("\\\n")
        elif a.startswith("o:"):
            _, p, q = a.split(":")
            out.append(p + QUOTE[q])
        elif a == "close":
            out.append(QUOTE[q])
            q = None
        elif a == "hash":
            out.append("#")
        elif a == "nl":
            out.append("\n")
        elif a == "semi":
            out.append("; ")
        elif a.startswith("c:"):
            c = a[2:]
            ch = QUOTE[q][0]
            other = '"' if ch == "'" else "'"
            out.append({"nl": "\n", "oq": other, "sq": ch + " ", "eq": "\\" + ch, "ebs": "\\\\", "h": "#",
                        "fb": "{id}", "fbb": "{{", "adj": ch + ch + "x"}[c])
        elif a.startswith("k:"):
            out.append({"s1": "'", "d1": '"', "s3": "'" * 3, "d3": '"' * 3, "bs": "\\"}[a[2:]])
        else:
            raise ValueError(a)
    return "".join(out)


def tokenize_statements(text):
    """Oracle P (CPython's tokenizer): the cimport / include statements of a program as
    [(ctx, normalised token text)], ctx = 'bol' | 'semi'.  Raises on a lexically invalid program."""
    import io
    import tokenize as T
    toks = list(T.generate_tokens(io.StringIO(text).readline))
    res = []
    start = True
    ctx = "bol"
    i = 0
    n = len(toks)
    while i < n:
        t = toks[i]
        if t.type in (T.NL, T.NEWLINE):
            start, ctx = True, "bol"
        elif t.type in (T.COMMENT, T.INDENT, T.DEDENT, T.ENCODING, T.ENDMARKER):
            pass
        elif t.type == T.OP and t.string == ";":
            start, ctx = True, "semi"
        elif start:
            start = False
            if t.type == T.NAME and t.string in ("cimport", "from", "include"):
                j = i
                words = []
                while j < n and not (toks[j].type == T.NEWLINE or (toks[j].type == T.OP and toks[j].string == ";")):
                    if toks[j].type not in (T.NL, T.COMMENT):
                        words.append(toks[j].string)
                    j += 1
                if t.string == "cimport" or (t.string == "from" and "cimport" in words) or \
                        (t.string == "include" and len(words) == 2 and words[1][:1] in "'\""):
                    res.append((ctx, " ".join(words)))
                i = j
                continue
        i += 1
    return res


def spec_statements(reals):
    import io
    import tokenize as T
    out = []
    for r in reals:
        ws = [t.string for t in T.generate_tokens(io.StringIO(FORM_TEXT[r["form"]] + "\n").readline)
              if t.type not in (T.NL, T.NEWLINE, T.COMMENT, T.ENDMARKER)]
        out.append((r["ctx"], " ".join(ws)))
    return out


def src_expected(case):
    exp = set()
    for r in case["reals"]:
        exp.update(resolve(r["form"], case["loc"]))
    return exp


def write_universe(root):
    for rel, text in UNIVERSE.items():
        pth = os.path.join(root, rel)
        os.makedirs(os.path.dirname(pth), exist_ok=True)
        with open(pth, "w") as f:
            f.write(text)


def child_scan(cases_f, out_f, root):
    """cases: {id, loc, text, compile}; writes {id, deps, scan, reads, errors}."""
    U, D = _import_cython()
    from Cython.Compiler import Main
    from Cython.Compiler.Main import Context
    from Cython.Compiler.Options import CompilationOptions, default_options
    write_universe(root)
    os.chdir(root)
    reads = set()
    state = {"on": False}

    def hook(event, args):
        if state["on"] and event == "open" and isinstance(args[0], str) and args[0].endswith((".pxd", ".pxi", ".pyx")):
            ap = os.path.abspath(args[0])
            if ap.startswith(root + os.sep):
                reads.add(os.path.relpath(ap, root))
    sys.addaudithook(hook)
    n = nc = 0
    with open(cases_f) as f, open(out_f, "w") as out:
        for line in f:
            c = json.loads(line)
            fn = ("p/m%d.pyx" if c["loc"] == "pkg" else "m%d.pyx") % c["id"]
            with open(fn, "w") as fh:
                fh.write(c["text"])
            rec = {"id": c["id"]}
            try:
                options = CompilationOptions(default_options, include_path=["."])
                tree = D.DependencyTree(Context.from_options(options), quiet=True)
                rec["deps"] = sorted(os.path.normpath(p) for p in tree.all_dependencies(fn) if os.path.normpath(p) != fn)
                pd = D.parse_dependencies(fn)
                rec["scan"] = [sorted(pd[0]), sorted(pd[1])]
            except Exception as ex:
                rec["deps_error"] = "%s: %s" % (type(ex).__name__, str(ex)[:300])
            n += 1
            if c.get("compile"):
                nc += 1
                reads.clear()
                import io
                so, se = sys.stdout, sys.stderr
                sys.stdout = sys.stderr = buf = io.StringIO()
                state["on"] = True
                try:
                    r = Main.compile_single(fn, CompilationOptions(default_options, include_path=["."]), None)
                    rec["errors"] = r.num_errors
                except BaseException as ex:
                    rec["errors"] = -1
                    rec["compile_exc"] = "%s: %s" % (type(ex).__name__, str(ex)[:300])
                finally:
                    state["on"] = False
                    sys.stdout, sys.stderr = so, se
                rec["reads"] = sorted(p for p in reads if p != fn)
                if rec["errors"]:
                    rec["messages"] = buf.getvalue()[-600:]
                try:
                    os.remove(fn[:-4] + ".c")
                except OSError:
                    pass
            os.remove(fn)
            out.write(json.dumps(rec) + "\n")
    print("@@" + json.dumps({"cases": n, "compiled": nc}))


if __name__ == "__main__":
    cmd = sys.argv[1]
    a = [os.path.abspath(x) if (os.sep in x or x.endswith(".ndjson")) else x for x in sys.argv[2:]]
    if cmd == "memo":
        child_memo(a[0], a[1])
    elif cmd == "sweep":
        child_sweep(int(a[0]), int(a[1]), int(a[2]), a[3])
    elif cmd == "orders":
        child_orders(a[0], a[1], a[2])
    elif cmd == "files":
        child_files(a[0], a[1], a[2])
    elif cmd == "build":
        child_build(a[0], a[1], a[2])
    elif cmd == "scan":
        child_scan(a[0], a[1], a[2])
    else:
        raise SystemExit("unknown command %r" % cmd)
