"""C38 helpers: the pure-mode program family of spec/Shadow.tla (generator, renderer to a
pure-Python-mode .py module, independent Python evaluator P), the cdiv/cmod/cast table module, and
the runner for the *interpreted* side (CPython + Cython/Shadow.py from the snapshot).

Program (JSON, read by the spec through IOEnv.C38_PROGS):
  {pid, kind: def|cfunc|ccall|cmeth, pstyle: annot|locals, lstyle: annot|locals|declkw|declval,
   rstyle: annot|returns, mkind: ccall|cfunc (cmeth only), inline: bool, exceptval: ""|"star"|"m1",
   types: {a, b, x, y, i}, ret: C type | "object", body: [stmt], hashelper: bool, helper: {...}}
  stmt: ["set", var, e] | ["decl", var, e] | ["if", e, [stmt], [stmt]] | ["for", "i", e, [stmt]] | ["ret", [e, ...]]
  e:    ["c", int] | ["cd", quarters] | ["v", name] | ["neg", e] | ["not", e] | ["bin", op, e, e] | ["cmp", op, e, e]
        | ["cdiv", e, e] | ["cmod", e, e] | ["cast", T, e] | ["call", e, e]
"""
import json
import os
from fractions import Fraction

import calls
import core

M = 2147483647
QCAP = 1 << 26

#          kind bits signed   cython name
TYPES = {
    "schar": ("i", 8, True), "uchar": ("i", 8, False), "short": ("i", 16, True), "ushort": ("i", 16, False),
    "int": ("i", 32, True), "long": ("i", 64, True), "double": ("d", 0, True), "bint": ("b", 1, False),
    # only in the cdiv/cmod/cast tables and in wide (Python-oracle) programs
    "uint": ("i", 32, False), "ulong": ("i", 64, False), "longlong": ("i", 64, True), "ulonglong": ("i", 64, False),
    "Py_ssize_t": ("i", 64, True), "size_t": ("i", 64, False),
}
SPEC_TYPES = ["schar", "uchar", "short", "ushort", "int", "long", "double", "bint"]
SPEC_INT = ["schar", "uchar", "short", "ushort", "int", "long"]


def kind(t):
    return TYPES[t][0]


def trange(t):
    k, bits, signed = TYPES[t]
    if k == "b":
        return (0, 1)
    return (-(1 << (bits - 1)), (1 << (bits - 1)) - 1) if signed else (0, (1 << bits) - 1)


def rank(t):
    if t == "bint":
        return 0
    if t == "double":
        return 9
    return {8: 1, 16: 2, 32: 3, 64: 4}[TYPES[t][1]]


def promote(t):
    return "int" if rank(t) < 3 else t


def arith(t1, t2):
    p1, p2 = promote(t1), promote(t2)
    return p1 if rank(p1) >= rank(p2) else p2


# ---------------------------------------------------------------------------------------------
# P: independent evaluator.  tlc=True mirrors the abstraction of the TLC model (32-bit guarded arithmetic,
# doubles = quarters); tlc=False is the real-width semantics (Python ints, Fractions that must be floats).

class Prune(Exception):
    pass


class PyExc(Exception):
    pass


def _tdiv(a, b):
    q = abs(a) // abs(b)
    return q if (a < 0) == (b < 0) else -q


class Sem(object):
    def __init__(self, prog, tlc, max_loop):
        self.p = prog
        self.tlc = tlc
        self.max_loop = max_loop
        self.flags = set()        # model flags (spec: `fl`): hazard classes for known-finding matchers; none modelled at present

    # ---- ranges
    def in_range(self, t, v):
        k = kind(t)
        if k == "d":
            return abs(v) <= QCAP if self.tlc else True
        if self.tlc and rank(t) >= 3:
            return -M <= v <= M
        lo, hi = trange(t)
        return lo <= v <= hi

    def res(self, t, v):
        """v: exact mathematical result of an operation whose C type is t"""
        if kind(t) == "d":
            if self.tlc:
                if abs(v) > QCAP:
                    raise Prune("beyond-tlc")
                return (t, v)
            if Fraction(float(v)) != v:
                raise Prune("nondyadic")
            return (t, v)
        if not self.in_range(t, v):
            raise Prune("beyond-tlc" if (self.tlc and t == "long") else "overflow")
        return (t, v)

    # doubles: tlc -> quarters (int) ; real -> Fraction
    def to_d(self, t, v):
        if kind(t) == "d":
            return v
        if self.tlc:
            if abs(v) > QCAP // 4:
                raise Prune("beyond-tlc")
            return 4 * v
        if Fraction(float(v)) != v:
            raise Prune("nondyadic")          # the C conversion int -> double rounds: not decided
        return Fraction(v)

    def bin(self, op, l, r):
        (lt, lv), (rt, rv) = l, r
        if kind(lt) == "d" or kind(rt) == "d" or op == "/":
            if self.tlc:      # the model tests both operands before converting
                for t, v in (l, r):
                    if kind(t) != "d" and abs(v) > QCAP // 4:
                        raise Prune("beyond-tlc")
            x, y = self.to_d(lt, lv), self.to_d(rt, rv)
            if op in ("//", "%", "/") and y == 0:
                raise PyExc("ZeroDivisionError")
            if self.tlc:
                if op == "+":
                    v = x + y
                elif op == "-":
                    v = x - y
                elif op == "*":
                    if abs(x * y) > M:
                        raise Prune("beyond-tlc")
                    if (x * y) % 4:
                        raise Prune("nondyadic")
                    v = (x * y) // 4
                elif op == "//":
                    v = 4 * (x // y)
                elif op == "%":
                    v = x % y
                else:
                    if (4 * x) % abs(y):
                        raise Prune("nondyadic")
                    v = _tdiv(4 * x, y)
            else:
                if op == "+":
                    v = x + y
                elif op == "-":
                    v = x - y
                elif op == "*":
                    v = x * y
                elif op == "//":
                    v = Fraction((x / y).__floor__())
                elif op == "%":
                    v = x - y * (x / y).__floor__()
                else:
                    v = x / y
            return self.res("double", v)
        t = arith(lt, rt)
        if op in ("//", "%") and rv == 0:
            raise PyExc("ZeroDivisionError")
        v = {"+": lambda: lv + rv, "-": lambda: lv - rv, "*": lambda: lv * rv, "//": lambda: lv // rv, "%": lambda: lv % rv}[op]()
        return self.res(t, v)

    def cdivmod(self, op, l, r):
        (lt, lv), (rt, rv) = l, r
        if kind(lt) == "d" or kind(rt) == "d":
            if self.tlc:
                for t, v in (l, r):
                    if kind(t) != "d" and abs(v) > QCAP // 4:
                        raise Prune("beyond-tlc")
            x, y = self.to_d(lt, lv), self.to_d(rt, rv)
            if y == 0:
                raise Prune("c-div-zero")
            if op == "cmod":
                q = _tdiv(x.numerator * y.denominator, y.numerator * x.denominator) if not self.tlc else _tdiv(x, y)
                return self.res("double", x - q * y)
            if self.tlc:
                if (4 * x) % abs(y):
                    raise Prune("nondyadic")
                v = _tdiv(4 * x, y)
            else:
                v = x / y
            return self.res("double", v)
        if rv == 0:
            raise Prune("c-div-zero")
        if rv == -1 and not self.tlc and lv == trange(arith(lt, rt))[0]:
            raise Prune("c-div-overflow")          # MIN / -1 and MIN % -1 are undefined in C (SIGFPE on x86)
        q = _tdiv(lv, rv)
        return self.res(arith(lt, rt), q if op == "cdiv" else lv - q * rv)

    def cast(self, T, src):
        st, v = src
        sk, k = kind(st), kind(T)
        if k == "i":
            if sk == "d":
                v = _tdiv(v, 4) if self.tlc else (_tdiv(v.numerator, v.denominator))
            lo, hi = trange(T)
            if self.tlc and rank(T) >= 3:
                lo, hi = -M, M
            if not lo <= v <= hi:
                raise Prune("cast-range")
            return (T, v)
        if k == "d":
            if sk == "d":
                return (T, v)
            if self.tlc:
                if abs(v) > QCAP // 4:
                    raise Prune("beyond-tlc")
                return (T, 4 * v)
            if abs(v) > 1 << 53:
                raise Prune("nondyadic")
            return (T, Fraction(v))
        return (T, 1 if v != 0 else 0)

    def cmp(self, op, l, r):
        (lt, lv), (rt, rv) = l, r
        if kind(lt) == "d" or kind(rt) == "d":
            if self.tlc:
                for t, v in (l, r):
                    if kind(t) != "d" and abs(v) > QCAP // 4:
                        raise Prune("beyond-tlc")
            lv, rv = self.to_d(lt, lv), self.to_d(rt, rv)
        res = {"<": lv < rv, "<=": lv <= rv, "==": lv == rv, "!=": lv != rv, ">": lv > rv, ">=": lv >= rv}[op]
        return ("bint", 1 if res else 0)

    def eval(self, e, env, types):
        tag = e[0]
        if tag == "c":
            return ("int" if -(1 << 31) <= e[1] < (1 << 31) else "long", e[1])
        if tag == "cd":
            return ("double", e[1] if self.tlc else Fraction(e[1], 4))
        if tag == "v":
            if env.get(e[1]) is None:
                raise Prune("unbound")
            return (types[e[1]], env[e[1]])
        if tag == "neg":
            t, v = self.eval(e[1], env, types)
            return ("double", -v) if kind(t) == "d" else self.res(promote(t), -v)
        if tag == "not":
            t, v = self.eval(e[1], env, types)
            return ("bint", 0 if v != 0 else 1)
        if tag == "bin":
            l = self.eval(e[2], env, types)
            r = self.eval(e[3], env, types)
            return self.bin(e[1], l, r)
        if tag == "cmp":
            l = self.eval(e[2], env, types)
            r = self.eval(e[3], env, types)
            return self.cmp(e[1], l, r)
        if tag in ("cdiv", "cmod"):
            l = self.eval(e[1], env, types)
            r = self.eval(e[2], env, types)
            return self.cdivmod(tag, l, r)
        if tag == "cast":
            src = self.eval(e[2], env, types)
            return self.cast(e[1], src)
        if tag == "call":
            h = self.p["helper"]
            l = self.eval(e[1], env, types)
            r = self.eval(e[2], env, types)
            pt = h["ptypes"]
            if kind(l[0]) != kind(pt[0]) or kind(r[0]) != kind(pt[1]):
                raise Prune("kind-mismatch")
            if not self.in_range(pt[0], l[1]) or not self.in_range(pt[1], r[1]):
                raise Prune("arg-range")
            o = self.eval(h["body"], {"p": l[1], "q": r[1]}, {"p": pt[0], "q": pt[1]})
            if kind(o[0]) != kind(h["ret"]):
                raise Prune("kind-mismatch")
            if not self.in_range(h["ret"], o[1]):
                raise Prune("return-range")
            return (h["ret"], o[1])
        raise ValueError(e)

    def store(self, env, x, tv):
        t, v = tv
        if kind(t) != kind(self.p["types"][x]):
            raise Prune("kind-mismatch")
        if not self.in_range(self.p["types"][x], v):
            raise Prune("assign-range")
        env[x] = v

    class _Ret(Exception):
        pass

    def block(self, blk, env):
        types = self.p["types"]
        for s in blk:
            tag = s[0]
            if tag == "set":
                self.store(env, s[1], self.eval(s[2], env, types))
            elif tag == "decl":
                t, v = self.eval(s[2], env, types)
                T = types[s[1]]
                if kind(t) == "d" and kind(T) != "d":
                    raise Prune("kind-mismatch")
                if kind(T) == "b" and kind(t) == "i" and v not in (0, 1):
                    raise Prune("assign-range")
                self.store(env, s[1], self.cast(T, (t, v)))
            elif tag == "if":
                t, v = self.eval(s[1], env, types)
                self.block(s[2] if v != 0 else s[3], env)
            elif tag == "for":
                t, n = self.eval(s[2], env, types)
                if kind(t) != "i":
                    raise Prune("kind-mismatch")
                if n > self.max_loop:
                    raise Prune("loop-bound")
                for k in range(n):
                    env[s[1]] = k
                    self.block(s[3], env)
            elif tag == "ret":
                rs = [self.eval(e, env, types) for e in s[1]]
                if self.p["ret"] != "object":
                    if len(rs) != 1 or kind(rs[0][0]) != kind(self.p["ret"]):
                        raise Prune("kind-mismatch")
                    if not self.in_range(self.p["ret"], rs[0][1]):
                        raise Prune("return-range")
                r = Sem._Ret()
                r.vals = [(kind(t), v) for t, v in rs]
                raise r
            else:
                raise ValueError(s)

    def run(self, a, b):
        """-> {"st": ok|exc|pruned, "vals": [[k, v]], "why": str}, flags ; d values in quarters (tlc) or Fractions"""
        self.flags = set()
        types = self.p["types"]
        try:
            if not self.in_range(types["a"], a) or not self.in_range(types["b"], b):
                raise Prune("arg-range")
            if not self.tlc:
                a = Fraction(a) if kind(types["a"]) == "d" else a
                b = Fraction(b) if kind(types["b"]) == "d" else b
            env = {"a": a, "b": b}
            self.block(self.p["body"], env)
            raise Prune("no-return")
        except Sem._Ret as r:
            return {"st": "ok", "vals": r.vals, "why": ""}
        except Prune as e:
            return {"st": "pruned", "vals": [], "why": str(e)}
        except PyExc as e:
            return {"st": "exc", "vals": [], "why": str(e)}


# ---------------------------------------------------------------------------------------------
# generator

def _lit(rng, wide=False):
    r = rng.random()
    if r < 0.7:
        return ["c", rng.choice([-5, -3, -2, -1, 1, 2, 3, 4, 5, 7, 10])]
    if r < 0.9 or not wide:
        return ["c", rng.choice([0, 100, 127, 128, 255, 1000, 32767, 40000, 65536, -129, -32769])]
    return ["c", rng.choice([M, -M, 1 << 20, 3000000])]


class Gen(object):
    def __init__(self, rng, wide=False):
        self.rng = rng
        self.wide = wide          # wide: 32/64-bit types only, inputs from the full-width grids (Python oracle)

    def pick_type(self, k=None, param=False):
        rng = self.rng
        if k == "i" or (k is None and rng.random() < 0.78):
            if self.wide:
                return rng.choice(["int", "long", "long", "longlong", "Py_ssize_t"])
            return rng.choice(["schar", "uchar", "short", "ushort", "int", "int", "long", "long"])
        if k == "d" or (k is None and rng.random() < 0.75):
            return "double"
        return "bint"

    def expr(self, k, depth, scope, helper_ret=None):
        """an expression of kind k over the variables in scope {name: type}"""
        rng = self.rng
        names = [n for n, t in scope.items() if kind(t) == k]
        ints = [n for n, t in scope.items() if kind(t) == "i"]
        dbls = [n for n, t in scope.items() if kind(t) == "d"]
        if depth <= 0 or rng.random() < 0.18:
            if names and rng.random() < 0.8:
                return ["v", rng.choice(names)]
            if k == "i":
                return _lit(rng, self.wide)
            if k == "d":
                return ["cd", rng.choice([-30, -10, -6, -4, -2, -1, 1, 2, 3, 4, 6, 8, 10, 18])]
            return ["cmp", rng.choice(["<", "<=", "==", "!=", ">", ">="]), self.expr("i", 0, scope), self.expr("i", 0, scope)]
        sub = lambda kk: self.expr(kk, depth - 1, scope, helper_ret)
        r = rng.random()
        if k == "i":
            if helper_ret and kind(helper_ret) == "i" and r < 0.15:
                return ["call", sub(self.hk[0]), sub(self.hk[1])]
            if r < 0.40:
                return [rng.choice(["cdiv", "cmod"]), sub("i"), self._divisor(sub)]
            if r < 0.72:
                op = rng.choice(["+", "-", "*", "//", "%", "+", "-"])
                return ["bin", op, sub("i"), self._divisor(sub) if op in ("//", "%") else sub("i")]
            if r < 0.80:
                return ["neg", sub("i")]
            if r < 0.93:
                src = "i" if rng.random() < 0.6 or not (dbls or rng.random() < 0.3) else "d"
                if rng.random() < 0.06:
                    src = "b"
                return ["cast", self.pick_type("i"), sub(src)]
            return ["bin", rng.choice(["+", "*"]), sub("i"), sub("b")] if rng.random() < 0.3 else ["bin", "-", sub("i"), sub("i")]
        if k == "d":
            if helper_ret and kind(helper_ret) == "d" and r < 0.15:
                return ["call", sub(self.hk[0]), sub(self.hk[1])]
            if r < 0.25:
                return ["bin", "/", sub("i"), rng.choice([["c", 2], ["c", 4], ["c", -2], sub("i")])]
            if r < 0.60:
                op = rng.choice(["+", "-", "*", "/", "//", "%"])
                l, rr = (sub("d"), sub(rng.choice(["d", "i"]))) if rng.random() < 0.5 else (sub(rng.choice(["d", "i"])), sub("d"))
                return ["bin", op, l, rr]
            if r < 0.75:
                return ["cast", "double", sub("i")]
            if r < 0.85:
                return ["neg", sub("d")]
            if r < 0.95:
                return ["cmod", sub("d"), rng.choice([["cd", 2], ["cd", 6], ["cd", -8], sub("d")])]
            return ["cdiv", sub("d"), rng.choice([["cd", 2], ["cd", 8], ["cd", -4]])]
        # bint
        if r < 0.65:
            kk = rng.choice(["i", "i", "d"]) if dbls else "i"
            return ["cmp", rng.choice(["<", "<=", "==", "!=", ">", ">="]), sub(kk), sub(rng.choice(["i", kk]))]
        if r < 0.85:
            return ["not", sub(rng.choice(["b", "i"]))]
        return ["cast", "bint", sub(rng.choice(["i", "i", "d"]))]

    def _divisor(self, sub):
        rng = self.rng
        if rng.random() < 0.45:
            return ["c", rng.choice([-7, -3, -2, -1, 2, 3, 5, 7, 10])]
        return sub("i")

    def program(self, pid):
        rng = self.rng
        knd = rng.choice(["def", "def", "cfunc", "ccall", "cmeth"])
        types = {"a": self.pick_type(), "b": self.pick_type(), "x": self.pick_type(), "y": self.pick_type(),
                 "i": "int" if rng.random() < 0.7 else self.pick_type("i")}
        self.itype = types["i"]
        self.hk = ["i", "i"]
        if self.wide:
            types["a"] = self.pick_type("i")
            types["b"] = self.pick_type("i")
        p = {"pid": pid, "kind": knd, "pstyle": rng.choice(["annot", "locals"]),
             "lstyle": rng.choice(["annot", "locals", "declkw", "declval"]), "rstyle": rng.choice(["annot", "returns"]),
             "mkind": rng.choice(["ccall", "cfunc", "def"]), "inline": rng.random() < 0.3, "exceptval": "",
             "types": types, "ret": "object", "hashelper": False,
             "helper": {"kind": "cfunc", "ptypes": ["int", "int"], "ret": "int", "body": ["v", "p"], "pstyle": "annot",
                        "rstyle": "annot", "inline": False, "exceptval": ""}}
        helper_ret = None
        if rng.random() < 0.3:
            ht = [self.pick_type(), self.pick_type()]
            hr = self.pick_type()
            self.hk = [kind(ht[0]), kind(ht[1])]
            body = self.expr(kind(hr), 2, {"p": ht[0], "q": ht[1]})
            p["hashelper"] = True
            p["helper"] = {"kind": rng.choice(["cfunc", "ccall"]), "ptypes": ht, "ret": hr, "body": body,
                           "pstyle": rng.choice(["annot", "locals"]), "rstyle": rng.choice(["annot", "returns"]),
                           "inline": rng.random() < 0.4,
                           "exceptval": rng.choice(["", "", "star", "m1"]) if kind(hr) == "i" else rng.choice(["", "star"])}
            helper_ret = hr
        scope = {"a": types["a"], "b": types["b"]}
        body = []
        first = "decl" if p["lstyle"] == "declval" else "set"
        for v in ("x", "y"):
            e = self.expr(kind(types[v]), 2, scope, helper_ret)
            if first == "decl" and rng.random() < 0.35 and kind(types[v]) == "d":
                # declare(T, e) converts like a C assignment: an int into a double variable
                e = self.expr("i", 1, scope, helper_ret)
            elif first == "decl" and rng.random() < 0.08 and kind(types[v]) == "i":
                e = self.expr("b", 1, scope, helper_ret)
            body.append([first, v, e])
            scope[v] = types[v]
        for _ in range(rng.choice([0, 1, 1, 2])):
            body.append(self.stmt(scope, helper_ret, 1))
        if knd == "def" or (knd == "cmeth" and p["mkind"] == "def"):
            n = rng.choice([1, 1, 2, 3])
            body.append(["ret", [self.expr(rng.choice(["i", "i", "d", "b"]), 2, scope, helper_ret) for _ in range(n)]])
        else:
            p["ret"] = self.pick_type()
            if kind(p["ret"]) == "i":
                p["exceptval"] = rng.choice(["", "", "star", "m1"])
            elif rng.random() < 0.3:
                p["exceptval"] = "star"
            body.append(["ret", [self.expr(kind(p["ret"]), 2, scope, helper_ret)]])
        p["body"] = body
        return p

    def stmt(self, scope, helper_ret, depth):
        rng = self.rng
        types = {n: t for n, t in scope.items()}
        targets = [n for n in ("x", "y", "a", "b") if n in scope]
        r = rng.random()
        if depth > 0 and r < 0.3:
            cond = self.expr("b", 1, scope, helper_ret)
            return ["if", cond, [self.stmt(scope, helper_ret, 0)], [self.stmt(scope, helper_ret, 0)] if rng.random() < 0.7 else []]
        if depth > 0 and r < 0.55:
            ints = [n for n in ("a", "b", "x", "y") if n in scope and kind(scope[n]) == "i"]
            if ints and rng.random() < 0.8:
                n = ["bin", "%", ["v", rng.choice(ints)], ["c", rng.choice([2, 3, 4, 5])]]
            else:
                n = ["c", rng.choice([0, 1, 3, 5])]
            inner = dict(scope)
            inner["i"] = self.itype
            t = rng.choice([v for v in targets])
            acc = self.expr(kind(scope[t]), 1, inner, helper_ret)
            if kind(scope[t]) in ("i", "d"):
                acc = ["bin", rng.choice(["+", "-"]), ["v", t], acc]
            return ["for", "i", n, [["set", t, acc]]]
        t = rng.choice(targets)
        return ["set", t, self.expr(kind(scope[t]), 2, scope, helper_ret)]


def gen_programs(rng, n, first_pid=1, wide=False):
    g = Gen(rng, wide)
    return [g.program(first_pid + k) for k in range(n)]


def core_programs(first_pid, wide=False):
    """deterministic matrix: every function kind x declaration style with cdiv/cmod (and the Python operators) on the
    typed variables -- C division only happens if the declaration reached the compiler."""
    out = []
    pid = first_pid
    pairs = [("int", "int"), ("short", "schar"), ("uchar", "ushort"), ("long", "int"), ("double", "double"), ("int", "double")]
    if wide:
        pairs = [("int", "int"), ("long", "long"), ("longlong", "int"), ("Py_ssize_t", "long")]
    kinds = [("def", ""), ("cfunc", ""), ("ccall", ""), ("cmeth", "ccall"), ("cmeth", "cfunc"), ("cmeth", "def")]
    lstyles = ["annot", "locals", "declkw", "declval"]
    n = 0
    for ki, (knd, mk) in enumerate(kinds):
        for pi, (ta, tb) in enumerate(pairs):
            for oi, op in enumerate(["cdiv", "cmod"]):
                n += 1
                dbl = "double" in (ta, tb)
                rt = "double" if dbl else "long"
                p = {"pid": pid, "kind": knd, "pstyle": ["annot", "locals"][(ki + pi + oi) % 2], "lstyle": lstyles[n % 4],
                     "rstyle": ["annot", "returns"][(n // 2) % 2], "mkind": mk or "ccall", "inline": n % 3 == 0,
                     "exceptval": ["", "star", "m1"][n % 3] if not dbl else ["", "star"][n % 2],
                     "types": {"a": ta, "b": tb, "x": ta, "y": rt, "i": "int"}, "ret": "object", "hashelper": False,
                     "helper": {"kind": "cfunc", "ptypes": ["int", "int"], "ret": "int", "body": ["v", "p"], "pstyle": "annot",
                                "rstyle": "annot", "inline": False, "exceptval": ""}}
                first = "decl" if p["lstyle"] == "declval" else "set"
                body = [[first, "x", ["v", "a"]], [first, "y", [op, ["v", "x"], ["v", "b"]]]]
                if knd == "def" or (knd == "cmeth" and mk == "def"):
                    p["exceptval"] = ""
                    body.append(["ret", [["v", "y"], [op, ["v", "a"], ["v", "b"]], ["bin", "//", ["v", "a"], ["v", "b"]],
                                         ["bin", "%", ["v", "a"], ["v", "b"]]]])
                else:
                    p["ret"] = rt
                    body.append(["ret", [["v", "y"]]])
                p["body"] = body
                out.append(p)
                pid += 1
    if not wide:
        # the expression classes of repaired defects (no hazard class is modelled for them any more; these keep them exercised):
        # cast of an integer constant to bint, bool -> C integer cast, a zero divisor written as a cast of a constant
        A, B = ["v", "a"], ["v", "b"]
        zero_casts = [["cast", "int", ["c", 0]], ["cast", "int", ["cd", 3]], ["cast", "long", ["bin", "-", ["c", 2], ["c", 2]]],
                      ["cast", "short", ["neg", ["cd", 2]]]]
        rets = [[["cast", "bint", ["c", 1000]], ["bin", "+", A, ["cast", "bint", ["c", 5]]], ["cast", "bint", ["bin", "-", ["c", 3], ["c", 3]]],
                 ["cast", "int", ["cmp", "<", A, B]], ["cast", "long", ["not", A]]]]
        rets += [[["bin", op, A, z]] for op, z in zip(["//", "/", "%", "/"], zero_casts)]
        rets += [[["bin", "//", A, ["cast", "int", ["cd", 6]]], ["bin", "/", B, ["cast", "int", ["cd", -9]]]]]
        for k, ret in enumerate(rets):
            out.append({"pid": pid, "kind": "def", "pstyle": ["annot", "locals"][k % 2], "lstyle": lstyles[k % 4], "rstyle": "annot",
                        "mkind": "ccall", "inline": False, "exceptval": "", "types": {"a": "int", "b": "int", "x": "int", "y": "long", "i": "int"},
                        "ret": "object", "hashelper": False,
                        "helper": {"kind": "cfunc", "ptypes": ["int", "int"], "ret": "int", "body": ["v", "p"], "pstyle": "annot",
                                   "rstyle": "annot", "inline": False, "exceptval": ""},
                        "body": [["set", "x", A], ["ret", ret]]})
            pid += 1
    return out


# ---------------------------------------------------------------------------------------------
# renderer

def cy(t):
    return t if t in ("list", "tuple", "dict", "object") else "cython." + t


def rexpr(e, names, hname):
    tag = e[0]
    R = lambda x: rexpr(x, names, hname)
    if tag == "c":
        return str(e[1]) if e[1] >= 0 else "(%d)" % e[1]
    if tag == "cd":
        s = repr(e[1] / 4.0)
        return s if e[1] >= 0 else "(%s)" % s
    if tag == "v":
        return names.get(e[1], e[1])
    if tag == "neg":
        return "(-%s)" % R(e[1])
    if tag == "not":
        return "(not %s)" % R(e[1])
    if tag in ("bin", "cmp"):
        return "(%s %s %s)" % (R(e[2]), e[1], R(e[3]))
    if tag in ("cdiv", "cmod"):
        return "cython.%s(%s, %s)" % (tag, R(e[1]), R(e[2]))
    if tag == "cast":
        return "cython.cast(%s, %s)" % (cy(e[1]), R(e[2]))
    if tag == "call":
        return "%s(%s, %s)" % (hname, R(e[1]), R(e[2]))
    raise ValueError(e)


def rblock(blk, ind, names, hname, types, out):
    pad = "    " * ind
    if not blk:
        out.append(pad + "pass")
    for s in blk:
        tag = s[0]
        if tag == "set":
            out.append("%s%s = %s" % (pad, names.get(s[1], s[1]), rexpr(s[2], names, hname)))
        elif tag == "decl":
            out.append("%s%s = cython.declare(%s, %s)" % (pad, s[1], cy(types[s[1]]), rexpr(s[2], names, hname)))
        elif tag == "if":
            out.append("%sif %s:" % (pad, rexpr(s[1], names, hname)))
            rblock(s[2], ind + 1, names, hname, types, out)
            if s[3]:
                out.append(pad + "else:")
                rblock(s[3], ind + 1, names, hname, types, out)
        elif tag == "for":
            out.append("%sfor %s in range(%s):" % (pad, s[1], rexpr(s[2], names, hname)))
            rblock(s[3], ind + 1, names, hname, types, out)
        elif tag == "ret":
            es = [rexpr(e, names, hname) for e in s[1]]
            out.append("%sreturn %s" % (pad, es[0] if len(es) == 1 else "(" + ", ".join(es) + ")"))
        else:
            raise ValueError(s)


def _exceptval(ev):
    return {"": [], "star": ["@cython.exceptval(check=True)"], "m1": ["@cython.exceptval(-1, check=True)"]}[ev]


def _decl_locals(p, which):
    """the locals that must be declared besides the `decl` statements"""
    t = p["types"]
    declared_by_stmt = {s[1] for s in p["body"] if s[0] == "decl"}
    return [(n, t[n]) for n in which if n not in declared_by_stmt]


def render_program(p):
    """-> (source lines, entry point names [(callable name, via)])"""
    pid = p["pid"]
    t = p["types"]
    out = []
    hname = "_h%d" % pid
    if p["hashelper"]:
        h = p["helper"]
        out.append("@cython.%s" % h["kind"])
        if h["inline"] and h["kind"] == "cfunc":
            out.append("@cython.inline")
        out += _exceptval(h["exceptval"])
        if h["rstyle"] == "returns":
            out.append("@cython.returns(%s)" % cy(h["ret"]))
        if h["pstyle"] == "locals":
            out.append("@cython.locals(p=%s, q=%s)" % (cy(h["ptypes"][0]), cy(h["ptypes"][1])))
            sig = "p, q"
        else:
            sig = "p: %s, q: %s" % (cy(h["ptypes"][0]), cy(h["ptypes"][1]))
        out.append("def %s(%s)%s:" % (hname, sig, (" -> " + cy(h["ret"])) if h["rstyle"] == "annot" else ""))
        out.append("    return " + rexpr(h["body"], {}, hname))
        out.append("")
    meth = p["kind"] == "cmeth"
    names = {"a": "self.a"} if meth else {}
    typed_ret = p["ret"] != "object"
    deco = []
    fkind = p["mkind"] if meth else p["kind"]
    if fkind in ("cfunc", "ccall"):
        deco.append("@cython.%s" % fkind)
        if p["inline"] and fkind == "cfunc" and not meth:
            deco.append("@cython.inline")
        deco += _exceptval(p["exceptval"])
        if typed_ret and p["rstyle"] == "returns":
            deco.append("@cython.returns(%s)" % cy(p["ret"]))
    params = ["b"] if meth else ["a", "b"]
    loc = _decl_locals(p, ["x", "y", "i"])
    lk = []
    if p["pstyle"] == "locals":
        lk += ["%s=%s" % (n, cy(t[n])) for n in params]
        sig = ", ".join(params)
    else:
        sig = ", ".join("%s: %s" % (n, cy(t[n])) for n in params)
    head = []
    if p["lstyle"] == "locals" or (p["lstyle"] == "declval" and loc and pid % 2):
        lk += ["%s=%s" % (n, cy(tt)) for n, tt in loc]
    elif p["lstyle"] == "declkw" or (p["lstyle"] == "declval" and loc):
        head.append("cython.declare(%s)" % ", ".join("%s=%s" % (n, cy(tt)) for n, tt in loc))
    elif p["lstyle"] == "annot":
        head += ["%s: %s" % (n, cy(tt)) for n, tt in loc]
    if lk:
        deco.append("@cython.locals(%s)" % ", ".join(lk))
    ann = (" -> " + cy(p["ret"])) if (typed_ret and p["rstyle"] == "annot" and fkind in ("cfunc", "ccall")) else ""
    body = []
    rblock(p["body"], 0, names, hname, t, body)
    entries = []
    if meth:
        out.append("@cython.cclass")
        out.append("class K%d:" % pid)
        out.append(("    a: %s" % cy(t["a"])) if p["pstyle"] == "annot" else ("    a = cython.declare(%s)" % cy(t["a"])))
        out.append("    def __init__(self, a):")
        out.append("        self.a = a")
        out += ["    " + d for d in deco]
        out.append("    def m(self, %s)%s:" % (sig, ann))
        out += ["        " + l for l in head + body]
        out.append("")
        out.append("def f%d(a, b):" % pid)
        out.append("    k = cython.declare(K%d, K%d(a))" % (pid, pid))
        out.append("    return k.m(b)")
        entries.append(("f%d" % pid, "wrapper"))
    elif p["kind"] == "cfunc":
        out += deco
        out.append("def _f%d(%s)%s:" % (pid, sig, ann))
        out += ["    " + l for l in head + body]
        out.append("")
        out.append("def f%d(a, b):" % pid)
        out.append("    return _f%d(a, b)" % pid)
        entries.append(("f%d" % pid, "wrapper"))
    else:
        out += deco
        out.append("def f%d(%s)%s:" % (pid, sig, ann))
        out += ["    " + l for l in head + body]
        entries.append(("f%d" % pid, "direct"))
        if p["kind"] == "ccall":
            out.append("")
            out.append("def f%d_w(a, b):" % pid)
            out.append("    return f%d(a, b)" % pid)
            entries.append(("f%d_w" % pid, "wrapper"))
    out.append("")
    return out, entries


def render_module(progs):
    """-> (source, {pid: [(entry, via)]}, [(first line, last line, pid)])"""
    lines = ["# cython: language_level=3", "import cython", ""]
    entries, spans = {}, []
    for p in progs:
        src, ent = render_program(p)
        spans.append((len(lines) + 1, len(lines) + len(src), p["pid"]))
        lines += src
        entries[p["pid"]] = ent
    return "\n".join(lines) + "\n", entries, spans


# ---------------------------------------------------------------------------------------------
# cdiv / cmod / cast tables

TAB_INT = ["schar", "uchar", "short", "ushort", "int", "uint", "long", "ulong", "longlong", "ulonglong", "Py_ssize_t", "size_t"]
TAB_MIXED = [("uchar", "schar"), ("schar", "uchar"), ("short", "ushort"), ("ushort", "schar"), ("int", "short"), ("long", "int"),
             ("schar", "long")]
CAST_T = SPEC_TYPES + ["uint", "ulong", "longlong", "ulonglong", "Py_ssize_t", "size_t"]
PY_T = ["list", "tuple", "dict", "object"]


def table_module():
    L = ["# cython: language_level=3", "import cython", ""]
    for op in ("cdiv", "cmod"):
        for t in TAB_INT + ["double"]:
            c = cy(t)
            L += ["def %s_%s(a: %s, b: %s):" % (op, t, c, c), "    return cython.%s(a, b)" % op, ""]
            L += ["@cython.locals(a=%s, b=%s)" % (c, c), "def %sl_%s(a, b):" % (op, t), "    return cython.%s(a, b)" % op, ""]
            L += ["def %sd_%s(a, b):" % (op, t), "    x = cython.declare(%s, a)" % c, "    y = cython.declare(%s, b)" % c,
                  "    return cython.%s(x, y)" % op, ""]
            L += ["@cython.cfunc", "def _%sc_%s(a: %s, b: %s) -> %s:" % (op, t, c, c, cy("double" if t == "double" else t)),
                  "    return cython.%s(a, b)" % op, "def %sc_%s(a, b):" % (op, t), "    return _%sc_%s(a, b)" % (op, t), ""]
        for ta, tb in TAB_MIXED:
            L += ["def %s_%s_%s(a: %s, b: %s):" % (op, ta, tb, cy(ta), cy(tb)), "    return cython.%s(a, b)" % op, ""]
    for T in CAST_T:
        for S in CAST_T:
            L += ["def cast_%s_from_%s(v: %s):" % (T, S, cy(S)), "    return cython.cast(%s, v)" % cy(T), ""]
        L += ["def cast_%s_from_py(v):" % T, "    return cython.cast(%s, v)" % cy(T), ""]
        L += ["def decl_%s_from_py(v):" % T, "    x = cython.declare(%s, v)" % cy(T), "    return x", ""]
    for T in PY_T:
        L += ["def pycast_%s(v):" % T, "    return cython.cast(%s, v)" % T, ""]
        if T != "object":
            L += ["def pycast_%s_tc(v):" % T, "    return cython.cast(%s, v, typecheck=True)" % T, ""]
    return "\n".join(L) + "\n"


def object_typecheck_module():
    """cast(object, v, typecheck=True) in a module of its own: a compiler crash there (it used to assert in
    PyTypeTestNode) must not take the whole table module with it"""
    return "\n".join(["# cython: language_level=3", "import cython", "", "def pycast_object_tc(v):",
                      "    return cython.cast(object, v, typecheck=True)", ""])


# ---------------------------------------------------------------------------------------------
# running a module interpreted: CPython + cython.py / Cython/Shadow.py of the snapshot

_INTERP_DRIVER = calls._DRIVER.replace(
    'if not mod.__file__.endswith(".so"):',
    'import cython as _cy, Cython.Shadow as _sh\n'
    'snap = os.environ["C38_SNAPSHOT"]\n'
    'if not (mod.__file__.endswith(".py") and _sh.__file__ == os.path.join(snap, "Cython", "Shadow.py") and _cy.cdiv is _sh.cdiv\n'
    '        and _cy.compiled is False):\n'
    '    print("@@" + json.dumps({"fatal": "not interpreted with the snapshot shadow: %s %s" % (mod.__file__, _sh.__file__)})); sys.exit(3)\n'
    'if False:')
assert _INTERP_DRIVER != calls._DRIVER


def run_interp(name, source, call_list, tag="icalls", timeout=900):
    """import `source` as a plain Python module (no extension module next to it) and replay the calls"""
    d = core.subdir("interp_" + name)
    with open(os.path.join(d, name + ".py"), "w") as f:
        f.write(source)
    inf = os.path.join(d, tag + "_in.json")
    outf = os.path.join(d, tag + "_out.ndjson")
    with open(inf, "w") as f:
        json.dump(call_list, f)
    if os.path.exists(outf):
        os.unlink(outf)
    ch = core.run_child(_INTERP_DRIVER, [d, name, inf, outf, "0"], timeout=timeout, with_snapshot=True,
                        env={"C38_SNAPSHOT": core.snapshot()})
    fatal = [j for j in ch.json_lines() if "fatal" in j]
    if fatal:
        core.die("interp driver: %s" % fatal[0]["fatal"])
    if ch.rc != 0 or not ch.json_lines():
        core.die("interpreted run of %s failed rc=%s: %s" % (name, ch.rc, ch.err[-2000:]))
    obs = [None] * len(call_list)
    with open(outf) as f:
        for line in f:
            i, r = json.loads(line)
            obs[i] = r
    return obs


# ---------------------------------------------------------------------------------------------
# observations

def dec_obs(o):
    """driver observation -> comparable Python value (floats compare by value: the zero sign is not decided by the spec)"""
    if isinstance(o, dict) and "big" in o:
        return int(o["big"])
    if isinstance(o, list):
        if o and o[0] == "f":
            s = o[1]
            return ("f", float(s) if s in ("nan", "inf", "-inf") else float.fromhex(s))
        if o and o[0] == "bool":
            return ("bool", o[1])
        if o and o[0] in ("t", "l"):
            return (o[0],) + tuple(dec_obs(x) for x in o[1:])
        return ("other", json.dumps(o))
    return o


def expect_value(k, v, tlc):
    if k == "i":
        return int(v)
    if k == "b":
        return ("bool", bool(v))
    return ("f", (v / 4.0) if tlc else float(v))


def expect_obs(out, tlc):
    """outcome record (spec or P) -> comparable value"""
    if out["st"] == "exc":
        return "E:" + out["why"]
    vals = [expect_value(x["k"] if isinstance(x, dict) else x[0], x["v"] if isinstance(x, dict) else x[1], tlc) for x in out["vals"]]
    return vals[0] if len(vals) == 1 else ("t",) + tuple(vals)


def obs_class(o):
    if isinstance(o, str) and (o.startswith("CRASH") or o == "TIMEOUT"):
        return "crash"
    if isinstance(o, str) and o.startswith("E:"):
        return "exception"
    return "wrong-value"
