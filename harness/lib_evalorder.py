"""C20 helpers: rendering of spec/EvalOrder.tla ASTs as Python source, the logging runtime
(plain Python, shared by the CPython leg and the compiled leg), the child driver, and the
static case features used in descriptors.

AST node (JSON from TLC): {"t": form, "k": leaf kind / name, "sig": [...], "a": [children]}.
The leaf at tree path p (root 0, child j of p is 8p+j) is rendered as a call L(p) / LI(p) /
LS(p) / LD(p); LI is a cfunc returning a C int in the compiled module."""
import json
import os

import core

RUNTIME = r'''
"""logging runtime of the C20 check (plain Python in both legs)"""
LOG = []
OUT = {}
NID = [50000]


class LeafErr(Exception):
    pass


def rp(x):
    t = type(x)
    if t is V or t is W:
        return "V%d" % x.i
    if t is bool or t is int:
        return repr(x)
    if t is str:
        return "'" + x + "'"
    if x is None:
        return "None"
    if t is tuple:
        return "(" + ", ".join([rp(v) for v in x]) + ")"
    if t is list:
        return "[" + ", ".join([rp(v) for v in x]) + "]"
    if t is slice:
        return "slice(%s, %s, %s)" % (rp(x.start), rp(x.stop), rp(x.step))
    if t is set:
        return "<set:%d>" % len(x)
    if t is dict:
        return "{" + ", ".join(["%s: %s" % (rp(k), rp(v)) for k, v in x.items()]) + "}"
    return "<%s %r>" % (t.__name__, x)


class V(object):
    __slots__ = ("i", "t")

    def __init__(self, i, t):
        object.__setattr__(self, "i", i)
        object.__setattr__(self, "t", t)

    def __repr__(self):
        return "V%d" % self.i

    def _p(self, name, args):
        LOG.append("V%d.%s(%s)" % (self.i, name, args))
        n = NID[0]
        NID[0] = n + 1
        return type(self)(n, self.t)

    def __getitem__(self, k):
        return self._p("getitem", rp(k))

    def __setitem__(self, k, v):
        LOG.append("V%d.setitem(%s, %s)" % (self.i, rp(k), rp(v)))

    def __getattr__(self, name):
        if name.startswith("__"):
            raise AttributeError(name)
        return self._p("getattr", name)

    def __setattr__(self, name, v):
        LOG.append("V%d.setattr(%s, %s)" % (self.i, name, rp(v)))

    def __call__(self, *a, **k):
        return self._p("call", ", ".join([rp(v) for v in a]) + "; " + ", ".join(["%s=%s" % (n, rp(v)) for n, v in k.items()]))

    def __bool__(self):
        LOG.append("V%d.bool()" % self.i)
        return self.t

    def __add__(self, o):
        return self._p("add", rp(o))

    def __radd__(self, o):
        return self._p("radd", rp(o))

    def __iadd__(self, o):
        return self._p("iadd", rp(o))

    def __neg__(self):
        return self._p("neg", "")

    def __lt__(self, o):
        return self._p("lt", rp(o))

    def __gt__(self, o):
        return self._p("gt", rp(o))

    def __contains__(self, o):
        LOG.append("V%d.contains(%s)" % (self.i, rp(o)))
        return self.t

    def __format__(self, spec):
        LOG.append("V%d.format('%s')" % (self.i, spec))
        return "V%d" % self.i

    def __iter__(self):
        LOG.append("V%d.iter()" % self.i)
        n = NID[0]
        NID[0] = n + 2
        return iter((V(n, True), V(n + 1, True)))


class W(V):
    """equality-aware logging object (operands of membership tests over displays): == is logged as an unordered
    pair (the object with the smaller id first, objects before numbers) and answers 'both operands are falsy';
    the hash is consistent with it (falsy objects hash like 0 / False)"""
    __slots__ = ()

    def __eq__(self, o):
        if isinstance(o, V):
            a, b = (self, o) if self.i < o.i else (o, self)
            falsy = not o.t
        else:
            a, b = self, o
            falsy = (type(o) is int or type(o) is bool) and o == 0
        LOG.append("V%d.eq(%s)" % (a.i, rp(b)))
        return (not self.t) and falsy

    def __hash__(self):
        return hash(("W", self.i)) if self.t else 0


def _leaf(k):
    LOG.append("L%d" % k)
    o = OUT[k]
    if o == "R":
        raise LeafErr(k)
    return o == "T"


def L(k):
    return V(k, _leaf(k))


def LW(k):
    return W(k, _leaf(k))


def LIv(k):
    return k if _leaf(k) else 0


def LS(k):
    _leaf(k)
    return (V(10000 + k, True), V(20000 + k, True))


def LD(k):
    _leaf(k)
    return {"z%d" % k: V(30000 + k, True)}


def run_case(fn, out):
    """-> [log, outcome]"""
    del LOG[:]
    OUT.clear()
    OUT.update(out)
    NID[0] = 50000
    try:
        r = fn(V(40001, True), V(40002, True))
        if r is not NORES:
            LOG.append("res=" + rp(r))
        exc = ""
    except BaseException as e:
        exc = type(e).__name__
    return [list(LOG), exc]


class _NoRes(object):
    pass


NORES = _NoRes()
'''

MOD_HEADER = '''# cython: language_level=3
import cython
from c20rt import L, LW, LIv, LS, LD, NORES


@cython.cfunc
@cython.exceptval(-99, check=True)
def LI(k: cython.int) -> cython.int:
    return LIv(k)

'''


def leaf_kind(kind, path, typing):
    """spec: ResolveKind"""
    if kind not in ("v", "w"):
        return "o" if kind == "c" else kind
    if typing == "I" or (typing == "M" and path % 2 == 1):
        return "i"
    return "o" if kind == "v" else "q"


_LEAF_FN = {"o": "L", "q": "LW", "i": "LI", "s": "LS", "d": "LD"}
MEMBER = ("inlit", "notinlit")
_DISPLAY = {"tuple": "(%s)", "list": "[%s]", "set": "{%s}"}


def expr(e, p, ty, depth=0):
    """render an expression node at path p"""
    t = e["t"]
    a = e["a"]

    def ch(j):
        return expr(a[j - 1], 8 * p + j, ty, depth + 1)

    if t == "L":
        return "%s(%d)" % (_LEAF_FN[leaf_kind(e["k"], p, ty)], p)
    if t == "N":
        return e["k"]
    if t == "getitem":
        return "%s[%s]" % (ch(1), ch(2))
    if t == "slice":
        return "%s[%s:%s]" % (ch(1), ch(2), ch(3))
    if t == "getattr":
        return "%s.at" % ch(1)
    if t == "add":
        return "(%s + %s)" % (ch(1), ch(2))
    if t == "neg":
        return "(-%s)" % ch(1)
    if t == "lt":
        return "(%s < %s)" % (ch(1), ch(2))
    if t == "lt3":
        return "(%s < %s < %s)" % (ch(1), ch(2), ch(3))
    if t == "in":
        return "(%s in %s)" % (ch(1), ch(2))
    if t == "notin":
        return "(%s not in %s)" % (ch(1), ch(2))
    if t in MEMBER:
        els = ", ".join(ch(j) for j in range(2, len(a) + 1)) + ("," if e["k"] == "tuple" and len(a) == 2 else "")
        return "(%s %s %s)" % (ch(1), "in" if t == "inlit" else "not in", _DISPLAY[e["k"]] % els)
    if t == "and":
        return "(%s and %s)" % (ch(1), ch(2))
    if t == "or":
        return "(%s or %s)" % (ch(1), ch(2))
    if t == "not":
        return "(not %s)" % ch(1)
    if t == "cond":
        return "(%s if %s else %s)" % (ch(1), ch(2), ch(3))
    if t == "tuple":
        return "(%s, %s)" % (ch(1), ch(2))
    if t == "list":
        return "[%s, %s]" % (ch(1), ch(2))
    if t == "set":
        return "{%s, %s}" % (ch(1), ch(2))
    if t == "dict1":
        return "{%s: %s}" % (ch(1), ch(2))
    if t == "dict2":
        return "{%s: %s, %s: %s}" % (ch(1), ch(2), ch(3), ch(4))
    if t in ("fstr", "fspec"):
        q = _fquote(e, p)
        if t == "fstr":
            return "f%s{%s}-{%s}%s" % (q, ch(1), ch(2), q)
        return "f%s{%s:{%s}}%s" % (q, ch(1), ch(2), q)
    if t == "call":
        args = []
        for j, k in enumerate(e["sig"], 1):
            x = ch(j + 1)
            args.append({"p": x, "k": "k%d=%s" % (j, x), "s": "*" + x, "d": "**" + x}[k])
        return "%s(%s)" % (ch(1), ", ".join(args))
    raise ValueError("unknown form %r" % t)


def _fdepth(e):
    return (1 if e["t"] in ("fstr", "fspec") else 0) + max([_fdepth(c) for c in e["a"]] or [0])


def _fquote(e, p):
    # nested f-strings get different quotes (pre-PEP 701 syntax): innermost '"', then "'", then '"""'
    return ['"', "'", '"""', "'''"][_fdepth(e) - 1]


def target(tg, p, ty, name):
    t = tg["t"]
    a = tg["a"]
    if t == "tN":
        return name
    if t == "N":
        return tg["k"]
    c = expr(a[0], 8 * p + 1, ty)
    if t == "tsub":
        return "%s[%s]" % (c, expr(a[1], 8 * p + 2, ty))
    if t == "tattr":
        return "%s.at" % c
    if t == "tslice":
        return "%s[%s:%s]" % (c, expr(a[1], 8 * p + 2, ty), expr(a[2], 8 * p + 3, ty))
    raise ValueError(t)


def stmt(ast, ty):
    t = ast["t"]
    a = ast["a"]
    n = len(a)
    if t == "ret":
        return ["return %s" % expr(a[0], 1, ty)]
    if t == "assign":
        tg = [target(a[i], i + 1, ty, "xyz"[i]) for i in range(n - 1)]
        return ["%s = %s" % (" = ".join(tg), expr(a[n - 1], n, ty)), "return NORES"]
    if t == "aug":
        return ["%s += %s" % (target(a[0], 1, ty, "x"), expr(a[1], 2, ty)), "return NORES"]
    if t == "unpack":
        rhs = a[2]
        if rhs["t"] == "tuple":   # unparenthesised: the parallel-assignment form
            r = "%s, %s" % (expr(rhs["a"][0], 8 * 3 + 1, ty), expr(rhs["a"][1], 8 * 3 + 2, ty))
        else:
            r = expr(rhs, 3, ty)
        return ["%s, %s = %s" % (target(a[0], 1, ty, "x"), target(a[1], 2, ty, "y"), r), "return NORES"]
    raise ValueError(t)


def function(name, ast, ty):
    body = ["def %s(P, Q):" % name, "    x = y = z = None"] + ["    " + s for s in stmt(ast, ty)]
    return "\n".join(body) + "\n"


def leaf_paths(e, p=0):
    if e["t"] == "L":
        return [p]
    out = []
    for j, c in enumerate(e["a"], 1):
        out += leaf_paths(c, 8 * p + j)
    return out


def forms(e, acc=None):
    acc = set() if acc is None else acc
    acc.add("call:" + "".join(e["sig"]) if e["t"] == "call" else e["t"] + ":" + e["k"] if e["t"] in MEMBER else e["t"])
    for c in e["a"]:
        forms(c, acc)
    return acc


# --------------------------------------------------------------------------
# static case features for descriptors (computed from the spec-side AST + typing)

def ctype(e, p, ty):
    """C-level type class that an expression over C-int leaves has: obj | int | bint"""
    t = e["t"]
    a = e["a"]

    def ct(j):
        return ctype(a[j - 1], 8 * p + j, ty)

    if t == "L":
        return "int" if leaf_kind(e["k"], p, ty) == "i" else "obj"
    if t in ("not", "in", "notin") + MEMBER:
        return "bint"
    if t in ("lt", "lt3"):
        return "bint" if all(ct(j) != "obj" for j in range(1, len(a) + 1)) else "obj"
    if t == "add":
        return "int" if ct(1) != "obj" and ct(2) != "obj" else "obj"
    if t == "neg":
        return "int" if ct(1) != "obj" else "obj"
    if t in ("and", "or", "cond"):
        cs = [ct(1), ct(2)] if t != "cond" else [ct(1), ct(3)]
        if "obj" in cs:
            return "obj"
        return cs[0] if cs[0] == cs[1] else "int"
    return "obj"


def index_exprs(e, p=0, acc=None):
    """[(construct, node, path)] for every subscript index / slice bound in the case"""
    acc = [] if acc is None else acc
    t = e["t"]
    if t in ("getitem", "tsub"):
        acc.append(("subscript-index", e["a"][1], 8 * p + 2))
    elif t in ("slice", "tslice"):
        acc.append(("slice-bound", e["a"][1], 8 * p + 2))
        acc.append(("slice-bound", e["a"][2], 8 * p + 3))
    for j, c in enumerate(e["a"], 1):
        index_exprs(c, 8 * p + j, acc)
    return acc


def descriptor(ast, ty, exc):
    top = ast["t"]
    d = {"stmt": top, "typing": ty, "raises": bool(exc)}
    if top == "ret":
        d["form"] = ast["a"][0]["t"] if ast["a"][0]["t"] != "call" else "call:" + "".join(ast["a"][0]["sig"])
    else:
        d["form"] = "+".join(c["t"] for c in ast["a"][:-1])
    bi = [(c, n["t"]) for c, n, p in index_exprs(ast) if ctype(n, p, ty) == "bint"]
    d["bint_index"] = bool(bi)
    if bi:
        d["construct"] = bi[0][0]
        d["index_expr_kind"] = {"lt": "compare", "lt3": "compare", "notin": "in", "inlit": "in", "notinlit": "in"}.get(bi[0][1], bi[0][1])
    mem = members(ast)
    if mem:
        d["member_display"] = "+".join(sorted({m["k"] for m in mem}))
    return d


def members(e, acc=None):
    """the membership tests over displays in the case"""
    acc = [] if acc is None else acc
    if e["t"] in MEMBER:
        acc.append(e)
    for c in e["a"]:
        members(c, acc)
    return acc


# --------------------------------------------------------------------------
# child driver

DRIVER = r'''
import json, sys, os, importlib
rtdir, mode, target, infile, outfile, start = sys.argv[1:7]
start = int(start)
sys.path.insert(0, rtdir)
import c20rt
if mode == "C":
    sys.path.insert(0, os.path.dirname(target))
    modname = os.path.basename(target).split(".")[0]
    mod = importlib.import_module(modname)
    if not mod.__file__.endswith(".so"):
        print("@@" + json.dumps({"fatal": "not an extension: %s" % mod.__file__})); sys.exit(3)
    ns = vars(mod)
else:
    ns = {"__name__": "c20p"}
    exec(compile(open(target).read(), target, "exec"), ns)
work = json.load(open(infile))          # [[funcname, [[ [path, outcome], ...], ...]], ...]
out = open(outfile, "a")
for i in range(start, len(work)):
    fn, vecs = work[i]
    out.write(json.dumps(["begin", i]) + "\n"); out.flush()
    f = ns[fn]
    res = [c20rt.run_case(f, {int(p): o for p, o in v}) for v in vecs]
    out.write(json.dumps(["done", i, res]) + "\n"); out.flush()
out.close()
print("@@" + json.dumps({"done": len(work)}))
'''


def write_runtime(d):
    with open(os.path.join(d, "c20rt.py"), "w") as f:
        f.write(RUNTIME)


def run_work(rtdir, mode, target, work, tag, timeout=900):
    """work: [[funcname, [vec, ...]], ...] -> list (per work item) of [[log, exc], ...] or "CRASH:<n>" / "TIMEOUT"."""
    wd = os.path.dirname(target)
    inf = os.path.join(wd, tag + "_in.json")
    outf = os.path.join(wd, tag + "_out.ndjson")
    with open(inf, "w") as f:
        json.dump(work, f)
    if os.path.exists(outf):
        os.unlink(outf)
    res = [None] * len(work)
    start = 0
    crashes = 0
    while start < len(work):
        ch = core.run_child(DRIVER, [rtdir, mode, target, inf, outf, str(start)], timeout=timeout, with_snapshot=True)
        begun = -1
        if os.path.exists(outf):
            with open(outf) as f:
                for line in f:
                    try:
                        r = json.loads(line)
                    except ValueError:
                        continue
                    if r[0] == "done":
                        res[r[1]] = r[2]
                    else:
                        begun = max(begun, r[1])
        fatal = [j for j in ch.json_lines() if "fatal" in j]
        if fatal:
            core.die("driver: %s" % fatal[0]["fatal"])
        if ch.rc == 0 and ch.json_lines():
            break
        nxt = start
        while nxt < len(work) and res[nxt] is not None:
            nxt += 1
        if nxt >= len(work):
            break
        if not (ch.timed_out or ch.crashed) and begun < nxt:
            core.die("driver failed before running anything (%s): rc=%s %s" % (tag, ch.rc, ch.err[-1500:]))
        res[nxt] = "TIMEOUT" if ch.timed_out else ("CRASH:%d" % ch.signal if ch.crashed else "CRASH:exit%s:%s" % (ch.rc, ch.err[-300:]))
        crashes += 1
        if crashes > 100:
            core.die("too many crashes in run_work")
        start = nxt + 1
    return res
