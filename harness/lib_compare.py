"""C19 helpers: shapes for spec/Compare.tla, rendering of cases into Cython / plain-Python
functions, the child-side driver (prelude) and the switch detector for generated C.

A *shape* is what becomes one compiled function; the values it is called with are enumerated by
TLC (chain / member / strin) or are the subject range of the switch family."""
import itertools
import re

OPS = ["<", "<=", "==", "!=", ">", ">=", "is", "isnot", "in", "notin"]
OPSRC = {"isnot": "is not", "notin": "not in"}

# ---- chain operands -------------------------------------------------------------------------
CH_DOM = ["m1", "i0", "i1", "f0", "f1", "T", "sa", "sb", "ba", "N", "W"]
CH_DOM3 = {"quick": ["m1", "i1", "sa", "ba", "W"], "thorough": ["m1", "i0", "i1", "f1", "T", "sa", "ba", "N", "W"]}
CH_DOM4 = {"quick": ["i0", "i1", "sa", "W"], "thorough": ["i0", "i1", "sa", "N", "W"]}
TY_DOM = {"i": ["m1", "i0", "i1"], "d": ["f0", "f1"], "s": ["sa", "sb", "N"], "y": ["ba", "N"]}
TY_DECL = {"o": "", "i": "int ", "d": "double ", "s": "str ", "y": "bytes "}
TY_LEAF = {"o": "L", "i": "Li", "d": "Ld", "s": "Ls", "y": "Ly"}
C_TYPED = ("i", "d")

# ---- membership -----------------------------------------------------------------------------
XM = ["m1", "i0", "i1", "i2", "f1", "T", "sa", "ba", "N", "W", "nan", "U"]
MM = ["i0", "i1", "f1", "T", "sa", "ba", "N", "W", "nan"]
MM2Q = ["i0", "i1", "f1", "sa", "N", "W", "nan"]
MM3 = {"quick": ["i1", "sa", "W", "nan"], "thorough": ["i1", "f1", "sa", "N", "W", "nan"]}
MLIT = ["m1", "i0", "i1", "f1", "T", "sa", "ba", "N"]
LIT_SRC = {"m1": "-1", "i0": "0", "i1": "1", "i2": "2", "f0": "0.0", "f1": "1.0", "T": "True",
           "sa": '"a"', "sb": '"b"', "ba": 'b"a"', "N": "None"}
XTY_DOM = {"o": XM, "i": ["m1", "i0", "i1", "i2"], "d": ["f1"]}

HEADER_PYX = '''# cython: language_level=3
LOG = []
def L(k, v):
    LOG.append(k)
    return v
cdef int Li(int k, int v) except? -99:
    LOG.append(k)
    return v
cdef long Ll(int k, long v) except? -99:
    LOG.append(k)
    return v
cdef double Ld(int k, double v) except? -99.0:
    LOG.append(k)
    return v
cdef str Ls(int k, str v):
    LOG.append(k)
    return v
cdef bytes Ly(int k, bytes v):
    LOG.append(k)
    return v
cdef enum E:
    A = 97
    B = 98
    C = 99
'''
HEADER_PY = '''LOG = []
def L(k, v):
    LOG.append(k)
    return v
Li = Ll = Ld = Ls = Ly = L
A, B, C = 97, 98, 99
'''

# driver side (exec'ed in the namespace of the module under test, and, for P, of the plain-Python twin)
PRELUDE = r'''
class W(object):
    def __lt__(self, o): return 0
    def __le__(self, o): return 2
    def __gt__(self, o): raise ValueError("W.__gt__")
    def __ge__(self, o): return NotImplemented
    def __eq__(self, o): return ""
    def __ne__(self, o): return "x"
    def __contains__(self, o): return 2
    __hash__ = object.__hash__
VAL = {"m1": -1, "i0": 0, "i1": 1, "i2": 2, "f0": 0.0, "f1": 1.0, "T": True, "sa": "a", "sb": "b", "ba": b"a",
       "N": None, "W": W(), "nan": float("nan"), "U": [],
       # the wide table of the "pair" family
       "fNI": float("-inf"), "nB": -2**64, "fm": -1.5, "fz": -0.0, "Fa": False, "fh": 1.5, "iC": 2**30, "iD": 2**31, "iE": 2**53,
       "fE": 2.0**53, "iF": 2**53 + 1, "iG": 2**62, "iH": 2**64, "fH": 2.0**64, "fX": 1e300, "fI": float("inf"),
       "s_": "", "sab": "ab", "sab2": "".join(["a", "b"]), "saa": "aa", "sae": "a\xe9", "seu": "\u20ac",
       "b_": b"", "bb": b"b", "bab": b"ab", "bab2": bytes([97, 98]), "baa": b"aa", "bh": b"\xe9", "bah": b"a\xe9",
       "B_": bytearray(b""), "Ba": bytearray(b"a"), "Bab": bytearray(b"ab")}
assert VAL["sab"] is not VAL["sab2"] and VAL["bab"] is not VAL["bab2"]
def tokres(v):
    if v is True: return "True"
    if v is False: return "False"
    if type(v) is int: return "r%d" % v
    if type(v) is str: return "r" + (v or "e")
    return "?" + type(v).__name__
def RC(name, tuples):
    f = globals()[name]; out = []
    for t in tuples:
        del LOG[:]
        try: r = tokres(f(*[VAL[k] for k in t]))
        except Exception as e: r = "E:" + type(e).__name__
        out.append(r + "|" + "".join(map(str, LOG)))
    return out
def RM(name, kind, tuples):
    f = globals()[name]; out = []
    mk = {"vtuple": tuple, "vlist": list, "vset": set, "vfrozenset": frozenset, "vdict": dict.fromkeys}[kind]
    for t in tuples:
        del LOG[:]
        try: r = tokres(f(VAL[t[0]], mk([VAL[k] for k in t[1:]])))
        except Exception as e: r = "E:" + type(e).__name__
        out.append(r + "|")
    return out
def RX(name, xs):
    f = globals()[name]; out = []
    for x in xs:
        try: r = tokres(f(x))
        except Exception as e: r = "E:" + type(e).__name__
        out.append(r)
    return out
'''


def opsrc(op):
    return OPSRC.get(op, op)


# =============================================================================================
# chains

def chain_typing_ok(ops, ty):
    for j, op in enumerate(ops):
        tl, tr = ty[j], ty[j + 1]
        if op in ("is", "isnot") and (tl in C_TYPED or tr in C_TYPED):
            return False        # identity of a C value is not a Python notion
        if op in ("in", "notin") and tr in C_TYPED:
            return False        # a C number is no container
    return True


def chain_suspect(s):
    """shapes of a repaired code-generation defect (first operator in/not in, C operand later on; e97bddbb9): a
    regression breaks a whole module (compiler crash, invalid C) or the process (segfault), so they are kept apart"""
    return s["ops"][0] in ("in", "notin") and any(t in C_TYPED for t in s["ty"][2:])


def chain_doms(ty, nops, tier):
    base = CH_DOM if nops == 1 else (CH_DOM3[tier] if nops == 2 else CH_DOM4[tier])
    return [base if t == "o" else TY_DOM[t] for t in ty]


def chain_shapes(tier, rng):
    """-> list of shape dicts {part, ops, ty, ctx, form, doms}"""
    out = []
    tys1 = list(itertools.product("oidsy", repeat=2))
    for op in OPS:
        for ty in tys1:
            if not chain_typing_ok([op], ty):
                continue
            for ctx, form in (("val", "leaf"), ("bool", "leaf"), ("val", "name")) + ((("bool", "name"),) if tier != "quick" else ()):
                out.append({"ops": [op], "ty": "".join(ty), "ctx": ctx, "form": form})
    ops2 = list(itertools.product(OPS, repeat=2))
    for k, ops in enumerate(ops2):
        for ctx in (("val", "bool") if tier != "quick" else (("val", "bool")[(k + k // 10) % 2],)):
            out.append({"ops": list(ops), "ty": "ooo", "ctx": ctx, "form": "leaf"})
    typed2 = [(ops, ty) for ops in ops2 for ty in itertools.product("oid", repeat=3)
              if ty != ("o", "o", "o") and chain_typing_ok(ops, ty)]
    mixed2 = [(ops, ty) for ops in ops2 for ty in itertools.product("oidsy", repeat=3)
              if ("s" in ty or "y" in ty) and chain_typing_ok(ops, ty)]
    ops3 = list(itertools.product(OPS, repeat=3))
    typed3 = [(ops, ty) for ops in ops3 for ty in itertools.product("oid", repeat=4)
              if ty != ("o",) * 4 and chain_typing_ok(ops, ty)]
    if tier == "quick":
        pick2, pickm, pick3, pick3t = rng.sample(typed2, 150), rng.sample(mixed2, 50), rng.sample(ops3, 24), rng.sample(typed3, 40)
    else:
        pick2, pickm, pick3, pick3t = rng.sample(typed2, 800), rng.sample(mixed2, 500), rng.sample(ops3, 150), rng.sample(typed3, 300)
    for k, (ops, ty) in enumerate(pick2 + pickm):
        out.append({"ops": list(ops), "ty": "".join(ty), "ctx": ("val", "bool")[k % 2], "form": "leaf"})
    for k, ops in enumerate(pick3):
        out.append({"ops": list(ops), "ty": "oooo", "ctx": ("val", "bool")[k % 2], "form": "leaf"})
    for k, (ops, ty) in enumerate(pick3t):
        out.append({"ops": list(ops), "ty": "".join(ty), "ctx": ("val", "bool")[k % 2], "form": "leaf"})
    for s in out:
        s["part"] = "chain"
        s["doms"] = chain_doms(s["ty"], len(s["ops"]), tier)
    return out


def render_chain(s, name):
    n = len(s["ops"]) + 1
    def body(typed):
        if s["form"] == "leaf":
            leaves = ["%s(%d, a%d)" % (TY_LEAF[s["ty"][i]] if typed else "L", i, i) for i in range(n)]
        else:
            leaves = ["a%d" % i for i in range(n)]
        e = leaves[0]
        for j, op in enumerate(s["ops"]):
            e += " %s %s" % (opsrc(op), leaves[j + 1])
        if s["ctx"] == "val":
            return "    return %s\n" % e
        return "    if %s:\n        return True\n    return False\n" % e
    pyx = "def %s(%s):\n%s" % (name, ", ".join(TY_DECL[s["ty"][i]] + "a%d" % i for i in range(n)), body(True))
    py = "def %s(%s):\n%s" % (name, ", ".join("a%d" % i for i in range(n)), body(False))
    return pyx, py


# =============================================================================================
# pairs: a op b over the wide value table

P_INT = ["nB", "m1", "i0", "i1", "i2", "iC", "iD", "iE", "iF", "iG", "iH"]
P_FLT = ["fNI", "fm", "fz", "f0", "f1", "fh", "fE", "fH", "fX", "fI", "nan"]
P_STR = ["s_", "sa", "sb", "sab", "sab2", "saa", "sae", "seu"]
P_BYT = ["b_", "ba", "bb", "bab", "bab2", "baa", "bh", "bah"]
P_ALL = P_INT + ["T", "Fa"] + P_FLT + P_STR + P_BYT + ["B_", "Ba", "Bab", "N", "W"]
P_DOM = {"o": P_ALL, "s": P_STR + ["N"], "y": P_BYT + ["N"], "I": P_INT, "d": P_FLT}
P_DECL = {"o": "%s", "s": "str %s", "y": "bytes %s", "I": "%s: int", "d": "double %s"}
P_TYPINGS = ["oo", "so", "os", "ss", "yo", "oy", "yy", "sy", "Io", "oI", "II", "do", "od", "dd", "Id", "dI"]


def pair_shapes(tier, rng):
    out = []
    k = 0
    for op in OPS[:6]:
        for ty in P_TYPINGS:
            k += 1
            for ctx in (("val", "bool") if tier != "quick" else (("val", "bool")[k % 2],)):
                out.append({"part": "pair", "op": op, "ty": ty, "ctx": ctx, "form": "name", "adom": P_DOM[ty[0]], "bdom": P_DOM[ty[1]]})
    return out


def render_pair(s, name):
    e = "a %s b" % s["op"]
    body = ("    return %s\n" % e) if s["ctx"] == "val" else ("    if %s:\n        return True\n    return False\n" % e)
    return ("def %s(%s, %s):\n%s" % (name, P_DECL[s["ty"][0]] % "a", P_DECL[s["ty"][1]] % "b", body), "def %s(a, b):\n%s" % (name, body))


# =============================================================================================
# membership in literal containers

def member_shapes(tier, rng):
    out = []
    for kind in ("tuple", "list", "set", "dict"):
        for neg in (False, True):
            for n in range(0, 4):
                if kind == "set" and n == 0:
                    continue
                mdom = (MM2Q if (tier == "quick" and n == 2) else MM) if n <= 2 else MM3[tier]
                for form in ("name", "leaf"):
                    if tier == "quick" and n == 3 and (form == "name") != (kind in ("tuple", "set")):
                        continue
                    for k, xty in enumerate("oid"):
                        if xty != "o" and n == 3 and tier == "quick":
                            continue
                        out.append({"kind": kind, "neg": neg, "form": form, "xty": xty, "ctx": ("val", "bool")[(n + k + neg) % 2],
                                    "xdom": XTY_DOM[xty], "mdoms": [mdom] * n})
    # run-time containers in typed variables
    k = 0
    for kind in ("vtuple", "vlist", "vset", "vfrozenset", "vdict"):
        for neg in (False, True):
            for n in (0, 1, 2):
                for xty in ("o", "i"):
                    if xty == "i" and (n != 2 or neg):
                        continue
                    k += 1
                    out.append({"kind": kind, "neg": neg, "form": "cvar", "xty": xty, "ctx": ("val", "bool")[k % 2],
                                "xdom": XTY_DOM[xty], "mdoms": [MM2Q if n == 2 else MM] * n})
    lits = [list(ms) for n in (1, 2, 3) for ms in itertools.product(MLIT, repeat=n)]
    combos = [(kind, neg, ms, xty) for kind in ("tuple", "list", "set", "dict") for neg in (False, True) for ms in lits for xty in "oid"]
    pick = rng.sample(combos, 200 if tier == "quick" else 2500)
    for k, (kind, neg, ms, xty) in enumerate(pick):
        out.append({"kind": kind, "neg": neg, "form": "lit", "xty": xty, "ctx": ("val", "bool")[k % 2],
                    "xdom": XTY_DOM[xty], "mdoms": [[m] for m in ms]})
    for s in out:
        s["part"] = "member"
    return out


def render_member(s, name):
    n = len(s["mdoms"])
    if s["form"] == "cvar":
        e = "x %s c" % ("not in" if s["neg"] else "in")
        body = ("    return %s\n" % e) if s["ctx"] == "val" else ("    if %s:\n        return True\n    return False\n" % e)
        return ("def %s(%sx, %s c):\n%s" % (name, {"o": "", "i": "int "}[s["xty"]], s["kind"][1:], body), "def %s(x, c):\n%s" % (name, body))
    def body(typed):
        xleaf = {"o": "L", "i": "Li", "d": "Ld"}[s["xty"]] if typed else "L"
        if s["form"] == "leaf":
            x = "%s(0, x)" % xleaf
            ms = ["L(%d, a%d)" % (i + 1, i + 1) for i in range(n)]
        elif s["form"] == "name":
            x = "x"
            ms = ["a%d" % (i + 1) for i in range(n)]
        else:
            x = "x"
            ms = [LIT_SRC[d[0]] for d in s["mdoms"]]
        if s["kind"] == "tuple":
            c = "(%s%s)" % (", ".join(ms), "," if n == 1 else "")
        elif s["kind"] == "list":
            c = "[%s]" % ", ".join(ms)
        elif s["kind"] == "set":
            c = "{%s}" % ", ".join(ms)
        else:
            c = "{%s}" % ", ".join("%s: %d" % (m, i) for i, m in enumerate(ms))
        e = "%s %s %s" % (x, "not in" if s["neg"] else "in", c)
        if s["ctx"] == "val":
            return "    return %s\n" % e
        return "    if %s:\n        return True\n    return False\n" % e
    params = ["x"] + (["a%d" % (i + 1) for i in range(n)] if s["form"] != "lit" else [])
    tparams = [{"o": "", "i": "int ", "d": "double "}[s["xty"]] + "x"] + params[1:]
    return "def %s(%s):\n%s" % (name, ", ".join(tparams), body(True)), "def %s(%s):\n%s" % (name, ", ".join(params), body(False))


# =============================================================================================
# membership in str / bytes literals

CPS = [97, 98, 233]


def xrec(k, cs=(), v=0, t=""):
    return {"k": k, "cs": list(cs), "v": v, "t": t}


def strin_shapes(tier, rng):
    contents = [list(c) for n in range(0, 3) for c in itertools.product(CPS, repeat=n)]
    if tier != "quick":
        contents += [list(c) for c in itertools.product(CPS, repeat=3)]
    subs = [list(c) for n in range(0, 3) for c in itertools.product(CPS, repeat=n)]
    ints = [0, 97, 98, 233, 255, 256, -1, 353, -159, 489]
    out = []
    k = 0
    for cs in contents:
        for neg in (False, True):
            k += 1
            ctx = ("val", "bool")[k % 2]
            xs_str = [xrec("str", c) for c in subs] + [xrec("str", [99])] + [xrec("int", v=97), xrec("tok", t="N"), xrec("bytes", [97]), xrec("tok", t="W")]
            out.append({"kind": "str", "neg": neg, "cs": cs, "xty": "o", "ctx": ctx, "xdom": xs_str})
            out.append({"kind": "str", "neg": neg, "cs": cs, "xty": "u", "ctx": ctx,
                        "xdom": [xrec("str", [c]) for c in CPS + [99]]})
            xs_b = [xrec("bytes", c) for c in subs] + [xrec("int", v=v) for v in ints] + \
                   [xrec("str", [97]), xrec("tok", t="N"), xrec("tok", t="f1"), xrec("tok", t="W")]
            out.append({"kind": "bytes", "neg": neg, "cs": cs, "xty": "o", "ctx": ctx, "xdom": xs_b})
            for xty in ("i", "l"):
                out.append({"kind": "bytes", "neg": neg, "cs": cs, "xty": xty, "ctx": ctx, "xdom": [xrec("int", v=v) for v in ints]})
            out.append({"kind": "bytes", "neg": neg, "cs": cs, "xty": "c", "ctx": ctx,
                        "xdom": [xrec("int", v=v) for v in ints if 0 <= v <= 255]})
            # a (signed) char subject keeps character labels in the switch: '\xe9' is -23
            out.append({"kind": "bytes", "neg": neg, "cs": cs, "xty": "h", "ctx": ctx,
                        "xdom": [xrec("int", v=v) for v in (0, 97, 98, 127, -1, -23, -128)]})
    for s in out:
        s["part"] = "strin"
        s["cint"] = s["xty"] in ("i", "l", "c", "h")
        s["sty"] = {"i": "int", "l": "int", "c": "uchar", "h": "schar"}.get(s["xty"], "none")
    return out


def str_lit(cs):
    return '"%s"' % "".join("\\u%04x" % c for c in cs)


def bytes_lit(cs):
    return 'b"%s"' % "".join("\\x%02x" % c for c in cs)


def render_strin(s, name):
    lit = str_lit(s["cs"]) if s["kind"] == "str" else bytes_lit(s["cs"])
    e = "x %s %s" % ("not in" if s["neg"] else "in", lit)
    body = ("    return %s\n" % e) if s["ctx"] == "val" else ("    if %s:\n        return True\n    return False\n" % e)
    decl = {"o": "", "u": "Py_UCS4 ", "i": "int ", "l": "long ", "c": "unsigned char ", "h": "signed char "}[s["xty"]]
    return "def %s(%sx):\n%s" % (name, decl, body), "def %s(x):\n%s" % (name, body)


def xrec_arg(x):
    """argument encoding for calls.run_calls"""
    if x["k"] == "str":
        return "".join(map(chr, x["cs"]))
    if x["k"] == "bytes":
        return {"b": x["cs"]}
    if x["k"] == "int":
        return x["v"]
    return {"py": "VAL[%r]" % x["t"]}


def xrec_val(x, val):
    if x["k"] == "str":
        return "".join(map(chr, x["cs"]))
    if x["k"] == "bytes":
        return bytes(x["cs"])
    if x["k"] == "int":
        return x["v"]
    return val[x["t"]]


def xrec_key(x):
    return "%s:%s:%s:%s" % (x["k"], ",".join(map(str, x["cs"])), x["v"], x["t"])


# =============================================================================================
# if/elif chains -> switch

SUBJECTS = [96, 97, 98, 99, 100]
SW_TYPINGS = {"bytes": ["int", "long", "uchar", "enum", "obj"], "ustr": ["ucs4", "obj"]}
SW_DECL = {"int": "int ", "long": "long ", "uchar": "unsigned char ", "enum": "E ", "ucs4": "Py_UCS4 ", "obj": ""}


def sw_label(fam, typing, v, rng):
    if fam == "ustr":
        return "'%s'" % chr(v)
    if typing == "enum" and rng.random() < 0.7:
        return "ABC"[v - 97]
    return str(v)


def sw_cond(fam, typing, arm, rng, neg=False):
    """source of the condition of one arm; neg -> the negated test (expression contexts only)"""
    ls = arm["ls"]
    if arm["f"] == "in":
        lit = bytes_lit(ls) if fam == "bytes" else str_lit(ls)
        return "x %s %s" % ("not in" if neg else "in", lit)
    labs = [sw_label(fam, typing, v, rng) for v in ls]
    form = rng.choice(["or", "or", "tuple", "list", "set", "swapped"])
    if form in ("or", "swapped"):
        eq, glue = ("!=", " and ") if neg else ("==", " or ")
        parts = []
        for i, l in enumerate(labs):
            parts.append("%s %s x" % (l, eq) if (form == "swapped" and i == 0) else "x %s %s" % (eq, l))
        return glue.join(parts)
    op = "not in" if neg else "in"
    if form == "tuple":
        return "x %s (%s%s)" % (op, ", ".join(labs), "," if len(labs) == 1 else "")
    if form == "list":
        return "x %s [%s]" % (op, ", ".join(labs))
    return "x %s {%s}" % (op, ", ".join(labs))


def render_switch(case, typing, name, rng):
    """case: published TLC record (fam, arms, els). -> (pyx, py) of an if/elif chain function."""
    fam = case["fam"]
    lines = []
    for j, arm in enumerate(case["arms"]):
        lines.append("    %s %s:\n        return %d\n" % ("if" if j == 0 else "elif", sw_cond(fam, typing, arm, rng), j + 1))
    if case["els"]:
        lines.append("    else:\n        return 0\n")
    else:
        lines.append("    return -1\n")
    body = "".join(lines)
    return "def %s(%sx):\n%s" % (name, SW_DECL[typing], body), "def %s(x):\n%s" % (name, body)


def render_swexpr(case, typing, name, rng, neg, ctx):
    """single-arm case in an expression context (CondExprNode / BoolBinopNode / PrimaryCmpNode switch)."""
    cond = sw_cond(case["fam"], typing, case["arms"][0], rng, neg)
    if ctx == "cond":
        body = "    return ('Y' if %s else 'N')\n" % cond
    else:
        body = "    r = %s\n    return r\n" % cond
    return "def %s(%sx):\n%s" % (name, SW_DECL[typing], body), "def %s(x):\n%s" % (name, body)


def switch_expected(case, x):
    j = case["row"][str(x)]
    return j if j > 0 else (0 if case["els"] else -1)


def subject_arg(fam, typing, x):
    return chr(x) if fam == "ustr" else x


_RE_FUNC = re.compile(r"^static PyObject \*__pyx_pf_\w*?_\d+(w\d+)\(.*\{\s*$", re.M)


def functions_with_switch(c_text):
    """names (w<id>) of generated functions whose C body contains a switch statement, and all w-names seen"""
    seen, with_sw = set(), set()
    for m in _RE_FUNC.finditer(c_text):
        end = c_text.find("\n}\n", m.end())
        body = c_text[m.end():end if end > 0 else len(c_text)]
        seen.add(m.group(1))
        if "switch (" in body:
            with_sw.add(m.group(1))
    return seen, with_sw


# =============================================================================================
# bool family: boolean combinations of tests of one C-integer subject (SwitchTransform on expressions)

WIDE = 1000        # Compare.tla: a literal that Cython types as a Python object
BOOL_TYPINGS = {"int": ["int", "long", "obj"], "uchar": ["uchar"], "uint": ["uint", "enum"], "ucs4": ["ucs4"]}
BOOL_DECL = {"int": "int ", "long": "long ", "uchar": "unsigned char ", "uint": "unsigned int ", "enum": "E ", "ucs4": "Py_UCS4 ", "obj": ""}
BOOL_CTX = {"expr": ["ret", "cond", "while"], "stmt": ["stmt"]}


def bool_dom(fam):
    return list(range(-128, 128)) if fam == "int" else list(range(0, 256))


def bool_concrete(fam, v):
    """value of the 8-bit image -> value of the real type (uint: 128..255 stand for 2**32-128..2**32-1)"""
    return v + 2 ** 32 - 256 if (fam == "uint" and v >= 128) else v


def bool_subject(fam, x):
    return chr(x) if fam == "ucs4" else bool_concrete(fam, x)


def bool_subject_arg(fam, x):
    v = bool_subject(fam, x)
    return v if isinstance(v, str) or abs(v) < 2 ** 53 else {"big": str(v)}


def bool_lit(fam, typing, v, rng):
    if fam == "ucs4":
        if v == WIDE:
            return '"ab"'
        return "'%s'" % chr(v) if 32 < v < 127 else '"\\u%04x"' % v
    if v == WIDE:
        return str((2 ** 64 if typing == "long" else 2 ** 32) + 97)
    if typing == "enum" and 97 <= v <= 99 and rng.random() < 0.7:
        return "ABC"[v - 97]
    return str(bool_concrete(fam, v))


def bool_leaf(fam, typing, lf, rng):
    neg = lf["op"] in ("!=", "notin")
    if lf["kind"] == "str":
        lit = str_lit(lf["ls"]) if fam == "ucs4" else bytes_lit(lf["ls"])
        return "x %s %s" % ("not in" if neg else "in", lit)
    labs = [bool_lit(fam, typing, v, rng) for v in lf["ls"]]
    if lf["kind"] == "lit":
        op = "!=" if neg else "=="
        return "%s %s x" % (labs[0], op) if rng.random() < 0.2 else "x %s %s" % (op, labs[0])
    op = "not in" if neg else "in"
    form = rng.choice(["tuple", "tuple", "tuple", "list", "set"])
    if form == "tuple":
        return "x %s (%s%s)" % (op, ", ".join(labs), "," if len(labs) == 1 else "")
    return "x %s %s%s%s" % (op, "[{"[form == "set"], ", ".join(labs), "]}"[form == "set"])


def bool_child(fam, typing, ch, rng, top=False):
    if ch["k"] == "leaf":
        return bool_leaf(fam, typing, ch["a"], rng)
    if ch["k"] == "not":
        return "(not %s)" % bool_leaf(fam, typing, ch["a"], rng)
    s = "%s %s %s" % (bool_leaf(fam, typing, ch["a"], rng), ch["k"], bool_leaf(fam, typing, ch["b"], rng))
    return s if top else "(%s)" % s


def bool_expr(fam, typing, e, rng):
    if e["k"] == "id":
        return bool_child(fam, typing, e["l"], rng, True)
    if e["k"] == "not":
        return "not %s" % bool_child(fam, typing, e["l"], rng)
    return "%s %s %s" % (bool_child(fam, typing, e["l"], rng), e["k"], bool_child(fam, typing, e["r"], rng))


def bool_has_str(case):
    return any(lf["kind"] == "str" for e in case["conds"] for ch in (e["l"], e["r"]) for lf in (ch["a"], ch["b"]))


def render_bool(case, typing, rctx, name, rng, els=True):
    """case: published TLC record (fam, ctx, conds); rctx: ret | cond | while | stmt -> (pyx, py)"""
    fam = case["fam"]
    conds = [bool_expr(fam, typing, e, rng) for e in case["conds"]]
    if rctx == "ret":
        body = ("    return %s\n" % conds[0]) if rng.random() < 0.5 else ("    r = %s\n    return r\n" % conds[0])
    elif rctx == "cond":
        body = "    return ('Y' if %s else 'N')\n" % conds[0]
    elif rctx == "while":
        body = "    r = 0\n    while %s:\n        r += 1\n        if r == 2:\n            break\n    return r\n" % conds[0]
    else:
        body = "".join("    %s %s:\n        return %d\n" % ("if" if j == 0 else "elif", cnd, j + 1) for j, cnd in enumerate(conds))
        body += "    else:\n        return 0\n" if els else "    return -1\n"
    return "def %s(%sx):\n%s" % (name, BOOL_DECL[typing], body), "def %s(x):\n%s" % (name, body)


def iv_set(iv):
    out = set()
    for s, e in zip(sorted(iv["s"]), sorted(iv["e"])):
        out.update(range(s, e + 1))
    return out


def bool_tokens(rctx, els):
    """-> function branch index (0 = no branch) -> observation token"""
    if rctx == "ret":
        return lambda j: "True" if j else "False"
    if rctx == "cond":
        return lambda j: "rY" if j else "rN"
    if rctx == "while":
        return lambda j: "r2" if j else "r0"
    return lambda j: "r%d" % (j if j else (0 if els else -1))


def bool_rows(rows, dom):
    """published interval rows -> {x: branch index (0 = none)}"""
    sel = dict.fromkeys(dom, 0)
    for j, iv in enumerate(rows):
        for x in iv_set(iv):
            sel[x] = j + 1
    return sel


_RE_BFUNC = re.compile(r"^static PyObject \*__pyx_pf_\w*?_\d+(b\d+)\(.*\{\s*$", re.M)


def bool_functions_with_switch(c_text):
    seen, with_sw = set(), set()
    for m in _RE_BFUNC.finditer(c_text):
        end = c_text.find("\n}\n", m.end())
        body = c_text[m.end():end if end > 0 else len(c_text)]
        seen.add(m.group(1))
        if "switch (__pyx_v_x)" in body:
            with_sw.add(m.group(1))
    return seen, with_sw
