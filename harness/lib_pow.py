"""C07 helpers: rendering of the operand cases published by spec/Pow.tla into Cython source,
value pools, the demand (expected observation) of a call and the comparison with what compiled
code returned.  S = records published by TLC, P = CPython's own ** (and an independent reading
of docs/src/userguide/cpow_table.csv for the type table)."""
import csv
import math
import os
import struct

import calls

CTYPE = {"schar": "signed char", "uchar": "unsigned char", "short": "short", "ushort": "unsigned short",
         "int": "int", "uint": "unsigned int", "long": "long", "ulong": "unsigned long",
         "llong": "long long", "ullong": "unsigned long long", "ssize": "Py_ssize_t", "size": "size_t",
         "float": "float", "double": "double", "ldouble": "long double",
         "fcomplex": "float complex", "dcomplex": "double complex", "object": "object"}
INT_RANGE = {"schar": (8, True), "uchar": (8, False), "short": (16, True), "ushort": (16, False), "int": (32, True),
             "uint": (32, False), "long": (64, True), "ulong": (64, False), "llong": (64, True), "ullong": (64, False),
             "ssize": (64, True), "size": (64, False)}
# cython.typeof() strings
TYPEOF_INT = {"signed char": (8, True), "unsigned char": (8, False), "char": (8, True), "short": (16, True),
              "unsigned short": (16, False), "int": (32, True), "unsigned int": (32, False), "long": (64, True),
              "unsigned long": (64, False), "long long": (64, True), "unsigned long long": (64, False),
              "Py_ssize_t": (64, True), "size_t": (64, False)}
TYPEOF_FLT = {"float", "double", "long double"}
TYPEOF_CPX = {"float complex", "double complex", "long double complex", "soft double complex"}
CLASS_TYPES = {"integer": set(TYPEOF_INT), "double": {"double"}, "floating": set(TYPEOF_FLT),
               "realorcomplex": TYPEOF_FLT | {"soft double complex"}, "complex": TYPEOF_CPX, "object": {"Python object"}}


def irange(bits, signed):
    return (-(1 << (bits - 1)), (1 << (bits - 1)) - 1) if signed else (0, (1 << bits) - 1)


def observed_class(typeof):
    if typeof in TYPEOF_INT:
        return "integer"
    if typeof in TYPEOF_FLT:
        return typeof.replace("long double", "ldouble")
    if typeof == "soft double complex":
        return "softcomplex"
    if typeof in TYPEOF_CPX:
        return "complex"
    if typeof == "Python object":
        return "object"
    return "other"


# ---------------------------------------------------------------------------------------------
# operands


def op_id(o):
    if o["k"] == "var":
        return "v_" + o["t"]
    if o["k"] == "cint":
        return "i_" + (("m%d" % -o["n"]) if o["n"] < 0 else str(o["n"]))
    return "f_" + o["f"].replace("-", "m").replace(".", "p")


def op_kind(o):
    """operand category used in descriptors"""
    if o["k"] == "cint":
        return "int-const-neg" if o["n"] < 0 else "int-const"
    if o["k"] == "cflt":
        return "float-const"
    t = o["t"]
    if t in INT_RANGE:
        return "int-signed" if INT_RANGE[t][1] else "int-unsigned"
    if t in ("float", "double", "ldouble"):
        return "float"
    if t in ("fcomplex", "dcomplex"):
        return "complex"
    return "object"


def op_text(o, varname, base):
    if o["k"] == "var":
        return varname
    txt = str(o["n"]) if o["k"] == "cint" else o["f"]
    return "(%s)" % txt if (base and txt.startswith("-")) else txt


def op_const_value(o):
    return o["n"] if o["k"] == "cint" else float(o["f"])


def case_id(c):
    return op_id(c["a"]) + "__" + op_id(c["b"])


INT_CONSTS = [-2, -1, 0, 1, 2, 3, 5, 63, 64]
FLT_CONSTS = ["2.0", "0.5", "-1.0", "-0.5", "-2.0", "3.0"]


def mirrored_table_cases():
    """The operand forms of Pow.tla's TableCases (checked against what TLC publishes)."""
    ops = [{"k": "var", "t": t, "n": 0, "f": "-"} for t in CTYPE]
    ops += [{"k": "cint", "t": "long", "n": n, "f": "-"} for n in INT_CONSTS]
    ops += [{"k": "cflt", "t": "double", "n": 0, "f": f} for f in FLT_CONSTS]
    return [{"cpow": cpow, "a": a, "b": b} for cpow in (False, True) for a in ops for b in ops if a["k"] == "var" or b["k"] == "var"]


def types_source(cases, cpow):
    """One function returning {case id: cython.typeof(a ** b)} for every table case of this cpow."""
    src = ["# cython: language_level=3, cpow=%s" % cpow, "cimport cython", "", "def pow_types(o):"]
    for t, ct in CTYPE.items():
        src.append("    cdef %s x_%s = %s" % (ct, t, "o" if t == "object" else "1"))
    src.append("    r = {}")
    for c in cases:
        a = op_text(c["a"], "x_" + c["a"]["t"], True)
        b = op_text(c["b"], "x_" + c["b"]["t"], False)
        src.append("    r[%r] = cython.typeof(%s ** %s)" % (case_id(c), a, b))
    src.append("    return r")
    return "\n".join(src) + "\n"


def value_source(cases):
    src = []
    for c in cases:
        args = []
        if c["a"]["k"] == "var":
            args.append("a" if c["a"]["t"] == "object" else "%s a" % CTYPE[c["a"]["t"]])
        if c["b"]["k"] == "var":
            args.append("b" if c["b"]["t"] == "object" else "%s b" % CTYPE[c["b"]["t"]])
        src.append("def f_%s(%s):\n    return %s ** %s\n" % (case_id(c), ", ".join(args), op_text(c["a"], "a", True), op_text(c["b"], "b", False)))
    return "\n".join(src)


# which table cases get a value function (everything gets a typeof fact)
_INT_ALL = list(INT_RANGE)
_MIXED = [("int", "long"), ("int", "uint"), ("uchar", "int"), ("long", "ulong"), ("schar", "uchar"), ("uint", "int"),
          ("short", "ushort"), ("llong", "int"), ("ulong", "long")]
_CI_BASES = ["schar", "int", "uint", "long", "ulong", "llong"]


def wants_value_function(c):
    a, b = c["a"], c["b"]
    ka, kb = a["k"], b["k"]
    ta, tb = a["t"], b["t"]
    if ka == "var" and kb == "var":
        if ta in INT_RANGE and tb in INT_RANGE:
            return ta == tb or (ta, tb) in _MIXED
        pairs = {("double", "double"), ("float", "float"), ("ldouble", "ldouble"), ("double", "int"), ("double", "uint"),
                 ("float", "int"), ("double", "long"), ("int", "double"), ("uint", "double"), ("long", "double"),
                 ("float", "double"), ("int", "float"), ("ldouble", "int"), ("double", "schar"),
                 ("dcomplex", "dcomplex"), ("dcomplex", "int"), ("dcomplex", "double"), ("double", "dcomplex"),
                 ("fcomplex", "fcomplex"), ("fcomplex", "float"), ("int", "dcomplex"),
                 ("object", "object"), ("object", "int"), ("int", "object"), ("object", "double"), ("double", "object"),
                 ("object", "dcomplex"), ("object", "uint"), ("uint", "object")}
        return (ta, tb) in pairs
    if ka == "var":      # constant exponent
        if kb == "cint":
            return ta in _CI_BASES or ta in ("double", "object", "dcomplex") or (ta == "float" and b["n"] in (-1, 2, 3))
        return ta in ("double", "int", "object") or (ta in ("uint", "float") and b["f"] in ("0.5", "2.0"))
    # constant base
    if ka == "cint":
        return a["n"] in (2, -2, 3, 0) and tb in ("int", "uint", "long", "double", "object")
    return a["f"] in ("2.0", "-2.0") and tb in ("double", "int", "object")


# ---------------------------------------------------------------------------------------------
# P for the type table: an independent reading of the documented CSV


def read_doc_table(repo):
    path = os.path.join(repo, "docs", "src", "userguide", "cpow_table.csv")
    if not os.path.exists(path):
        path = "/repo/docs/src/userguide/cpow_table.csv"
    with open(path, newline="", encoding="utf8") as f:
        rows = list(csv.reader(f))
    assert rows[0][2].strip("`") == "cpow==True" and rows[0][3].strip("`") == "cpow==False", rows[0]

    def cell_class(text):
        t = " ".join(text.split())
        if t.startswith("Return type is C double"):
            return "double"
        if t.startswith("Return type is integer"):
            return "integer"
        if t.startswith("Return type is floating point"):
            return "floating"
        if t.startswith("Either a C real or complex number"):
            return "realorcomplex"
        raise ValueError("cannot read table cell %r" % text)
    out = []
    for r in rows[1:]:
        out.append({"a": r[0].strip(), "b": r[1].strip(), True: cell_class(r[2]), False: cell_class(r[3])})
    return out


def _doc_a_matches(text, o):
    kinds = op_kind(o)
    is_int = kinds.startswith("int-")
    is_flt = kinds in ("float", "float-const")
    if text == "C integer":
        return is_int
    if text == "C floating point":
        return is_flt
    if text == "C floating point (or C integer)":
        return is_int or is_flt
    raise ValueError(text)


def _doc_b_matches(text, o):
    kind = op_kind(o)
    if text == "Negative integer compile-time constant":
        return kind == "int-const-neg"
    if text == "C integer (known to be >= 0 at compile time)":
        return kind in ("int-const", "int-unsigned")
    if text == "C integer (may be negative)":
        return kind == "int-signed"
    if text == "C integer":
        return kind.startswith("int-")
    if text == "C floating point":
        return kind in ("float", "float-const")
    raise ValueError(text)


def doc_class(doc, cpow, a, b):
    """P: class by the documented table (None: operands outside the table)."""
    ka, kb = op_kind(a), op_kind(b)
    if "object" in (ka, kb):
        return "object", 0
    if "complex" in (ka, kb):
        return "complex", 0
    hits = [(i + 1, r[bool(cpow)]) for i, r in enumerate(doc) if _doc_a_matches(r["a"], a) and _doc_b_matches(r["b"], b)]
    if len(hits) != 1:
        return "ambiguous:%r" % (hits,), -1
    return hits[0][1], hits[0][0]


# ---------------------------------------------------------------------------------------------
# values


def xreal_value(x):
    k = x["k"]
    if k == "nan":
        return math.nan
    if k == "inf":
        return x["s"] * math.inf
    if k == "zero":
        return math.copysign(0.0, x["s"])
    if k == "fin":
        return math.ldexp(x["s"] * x["m"], x["e"])
    raise ValueError(k)


def fkey(v):
    """hashable identity of a float (bit pattern; one nan)"""
    return "nan" if v != v else struct.pack(">d", v).hex()


def is_f32(v):
    if v != v or v in (math.inf, -math.inf):
        return True
    try:
        return struct.unpack(">f", struct.pack(">f", v))[0] == v
    except OverflowError:
        return False


def fclass(v):
    if v != v:
        return "nan"
    if v in (math.inf, -math.inf):
        return "inf" if v > 0 else "-inf"
    if v == 0:
        return "-0.0" if math.copysign(1, v) < 0 else "0.0"
    return "neg" if v < 0 else "pos"


def vclass(v):
    if isinstance(v, bool):
        return "bool"
    if isinstance(v, int):
        return "0" if v == 0 else ("neg" if v < 0 else "pos")
    if isinstance(v, float):
        return fclass(v)
    if isinstance(v, complex):
        return "complex"
    return type(v).__name__


def is_special(v):
    return isinstance(v, float) and (v != v or v in (math.inf, -math.inf) or v == 0) or (isinstance(v, int) and not isinstance(v, bool) and v == 0)


def is_intvalued(v):
    if isinstance(v, bool):
        return False
    if isinstance(v, int):
        return True
    return isinstance(v, float) and v == v and v not in (math.inf, -math.inf) and v == math.floor(v)


def arg_enc(v):
    if isinstance(v, bool) or v is None or isinstance(v, str):
        return v
    if isinstance(v, int):
        return calls.ienc(v)
    if isinstance(v, float):
        return calls.fenc(v)
    if isinstance(v, complex):
        return {"c": [calls.fenc(v.real), calls.fenc(v.imag)]}
    if isinstance(v, tuple) and v[0] == "py":
        return {"py": v[1]}
    raise TypeError(v)


def res_enc(v):
    """how calls.py's driver reports a result"""
    if v is None or isinstance(v, str):
        return v
    if isinstance(v, bool):
        return ["bool", v]
    if type(v) is int:
        return v if abs(v) < 2 ** 53 else {"big": str(v)}
    if type(v) is float:
        return ["f", "nan" if v != v else ("inf" if v == math.inf else "-inf" if v == -math.inf else v.hex())]
    if type(v) is complex:
        return ["c", res_enc(v.real), res_enc(v.imag)]
    return ["o", type(v).__name__, repr(v)[:200]]


def res_dec(o):
    """observation -> ('int'|'float'|'complex'|'exc'|'crash'|'other', value)"""
    if isinstance(o, str):
        if o.startswith("E:"):
            return "exc", o[2:]
        if o.startswith("CRASH") or o == "TIMEOUT":
            return "crash", o
        return "other", o
    if isinstance(o, bool) or o is None:
        return "other", o
    if isinstance(o, int):
        return "int", o
    if isinstance(o, dict) and "big" in o:
        return "int", int(o["big"])
    if isinstance(o, list) and o and o[0] == "f":
        s = o[1]
        return "float", (float(s) if s in ("nan", "inf", "-inf") else float.fromhex(s))
    if isinstance(o, list) and o and o[0] == "c":
        return "complex", complex(res_dec(o[1])[1], res_dec(o[2])[1])
    return "other", o


def py_pow(a, b):
    """P: CPython's a ** b, guarded against astronomically large integer results."""
    if isinstance(a, int) and isinstance(b, int) and not isinstance(a, bool) and abs(a) > 1 and b > 4096:
        raise RuntimeError("py_pow: refusing %r ** %r" % (a, b))
    try:
        return "ok", a ** b
    except Exception as e:    # noqa
        return "exc", type(e).__name__


def same_float(u, v):
    if u != u or v != v:
        return u != u and v != v
    return u == v and math.copysign(1, u) == math.copysign(1, v)


def close(u, v, rel):
    if u != u or v != v:
        return u != u and v != v
    if u in (math.inf, -math.inf) or v in (math.inf, -math.inf):
        return u == v
    return abs(u - v) <= rel * max(abs(u), abs(v), 1e-300)


def cclose(z, w, rel):
    if any(x != x or x in (math.inf, -math.inf) for x in (z.real, z.imag, w.real, w.imag)):
        return close(z.real, w.real, rel) and close(z.imag, w.imag, rel)
    return abs(z - w) <= rel * max(abs(z), abs(w), 1e-300)


# want: ("int", n) | ("float", x) | ("exc", name) | ("complex~", z, rel) | ("complextype",) | ("enc", encoded result)
def want_kind(w):
    if w[0] == "exc":
        return "E:" + w[1]
    if w[0] in ("complex~", "complextype"):
        return "complex"
    if w[0] == "enc":
        k = res_dec(w[1])[0]
        return ("E:" + res_dec(w[1])[1]) if k == "exc" else k
    return w[0]


def compare(want, got):
    """None if the observation satisfies the demand, else the class of the wrong observation."""
    gk, gv = res_dec(got)
    if gk == "crash":
        return "crash"
    if want[0] == "enc":
        if got == want[1]:
            return None
        wk, wv = res_dec(want[1])
        want = (wk, wv) if wk in ("int", "float", "exc") else (("complex=", wv) if wk == "complex" else ("other", wv))
    if want[0] == "exc":
        if gk == "exc":
            return None if gv == want[1] else "wrong-exception:" + gv
        return "no-exception"
    if gk == "exc":
        return "exception:" + gv
    if want[0] == "int":
        if gk != "int":
            return "wrong-type:" + gk
        return None if gv == want[1] else "wrong-value"
    if want[0] == "float":
        if gk == "complex":
            return "complex-for-float"
        if gk != "float":
            return "wrong-type:" + gk
        if same_float(gv, want[1]):
            return None
        if gv == want[1]:
            return "wrong-zero-sign"
        return "inexact" if close(gv, want[1], 1e-12) else "wrong-value"
    if want[0] in ("complex~", "complextype", "complex="):
        if gk == "float":
            return "float-for-complex"
        if gk != "complex":
            return "wrong-type:" + gk
        if want[0] == "complextype":
            return None
        if want[0] == "complex=":
            return None if (same_float(gv.real, want[1].real) and same_float(gv.imag, want[1].imag)) else "wrong-value"
        return None if cclose(gv, want[1], want[2]) else "wrong-value"
    return "wrong-value"
