"""C43 helpers: rendering of token sequences published by spec/PyGrammar.tla (and of their mutations
from spec/Mutate.tla) as source bytes, CPython's verdict on a text (the independent oracle P), the
harness-side literal / nesting / encoding families, and the stdlib corpus."""
import ast
import glob
import os
import random
import re
import sys
import warnings

# lexemes that the grammar names but that are awkward inside a TLA+ string
SPECIAL = {
    "<INT40>": "1234567890" * 4,
    "<INT4000>": "1234567890" * 400,
    "<HEX5000>": "0x" + "9aBcDeF012" * 500,
    "<FLOAT400>": "1" + "0" * 400 + ".0",
    "<FLOATFRAC400>": "0." + "0" * 400 + "1",
    "<STR_EURO>": "'€é'",
    "<STR_ASTRAL>": "'\U0001f600'",
    "<STR_LATIN1>": "'éÿ'",
    "<RSTR_EURO>": "r'\\€'",
    "<STR_LONG>": "'" + "abcdefghij" * 2000 + "'",
    "<BYTES_LONG>": "b'" + "ab\\x00\\n" * 1500 + "'",
    "<STR_MANYESC>": "'" + "\\\\" * 600 + "\\'" * 300 + "\\x41\\101\\n" * 200 + "'",
    "<STR_TRIGRAPH>": "'??/ ??= ??( */ /* //'",
    "<STR_NL_ESC>": "'a\\\n\\\nb'",
    "<ID_UNI>": "été",
    "<ID_NFKC>": "ﬁx",          # LATIN SMALL LIGATURE FI: the identifier is `fix` after NFKC
    "<ID_LONG>": "v" + "x" * 3000,
    "<COOKIE_UTF8>": "# -*- coding: utf-8 -*-",
}
INDENTS = {"INDENT": "    ", "INDENTTAB": "\t", "INDENT1": " "}


def render(toks):
    """token sequence -> source bytes.  Tokens are separated by one space; NL ends a line, NLJ is a
    bare newline (blank line / newline inside brackets), BSNL a backslash continuation; INDENT* push an
    indentation string that is written at the start of every following line, DEDENT pops one
    (an unmatched DEDENT of a mutated sequence is ignored, a duplicated INDENT indents twice)."""
    stack = []
    out = []
    line = []
    flags = set()

    def flush(end):
        if line:
            out.append("".join(stack) + " ".join(line).replace("\f ", "\f") + end)
        else:
            out.append(end)
        del line[:]

    for t in toks:
        if t == "NL":
            flush("\n")
        elif t == "NLJ":
            flush("\n")
        elif t == "BSNL":
            line.append("\\")
            flush("\n")
        elif t in INDENTS:
            stack.append(INDENTS[t])
        elif t == "DEDENT":
            if stack:
                stack.pop()
        elif t == "NOEOL":
            flags.add("noeol")
        elif t == "<FF>":
            line.append("\f")
        elif t == "<CRLF>":
            flags.add("crlf")
        elif t == "<BOM>":
            flags.add("bom")
        else:
            line.append(SPECIAL.get(t, t))
    if line:
        flush("")
    text = "".join(out)
    if "noeol" in flags and text.endswith("\n"):
        text = text[:-1]
    if "crlf" in flags:
        text = text.replace("\n", "\r\n")
    data = text.encode("utf8", "surrogatepass")
    if "bom" in flags:
        data = b"\xef\xbb\xbf" + data
    return data


def cpython_verdict(data, name="<c43>"):
    """(valid, reason): does CPython compile the text?  Warnings are not errors."""
    try:
        with warnings.catch_warnings():
            warnings.simplefilter("ignore")
            compile(data, name, "exec", dont_inherit=True)
        return True, ""
    except SyntaxError as e:
        return False, "SyntaxError: %s" % (e.msg,)
    except (ValueError, OverflowError, RecursionError, MemoryError, UnicodeError) as e:
        return False, "%s: %s" % (type(e).__name__, str(e)[:80])


# --------------------------------------------------------------------------
# literal-focused / nesting / encoding families (validity is decided by CPython alone: P)

def _esc_family():
    out = []
    # every single-character escape, in str / bytes / f-string / raw
    for c in range(32, 127):
        ch = chr(c)
        if ch in "'\\":
            continue
        out.append(("esc1", "str-%d" % c, "x = '\\%s'\n" % ch))
        if c % 3 == 0:
            out.append(("esc1", "bytes-%d" % c, "x = b'\\%s'\n" % ch))
        if c % 5 == 0 and ch not in "{}":
            out.append(("esc1", "fstr-%d" % c, "x = f'\\%s{id}'\n" % ch))
    forms = ["\\x4", "\\x", "\\xg1", "\\x41", "\\u20a", "\\u20ac", "\\U0001f60", "\\U0001f600", "\\U00110000", "\\UFFFFFFFF",
             "\\N{DIGIT ONE}", "\\N{NOPE NOPE}", "\\N{", "\\N{}", "\\N", "\\N{DIGIT ONE", "\\400", "\\777", "\\1234", "\\08", "\\8", "\\9",
             "\\0", "\\00", "\\000", "\\377", "\\ud800", "\\udfff", "\\ud800\\udc00", "\\udc00\\ud800", "\\ud83d\\ude00", "\\\\", "\\'", "\\\"",
             "\\\n", "\\\r\n", "\\ ", "\\\t", "\\", "\\x00", "\\x7f", "\\x80", "\\xff", "\\u0000", "\\uffff", "\\U0010ffff", "\\ufffe"]
    for i, f in enumerate(forms):
        for pfx in ("", "b", "r", "rb", "f", "u", "bR", "Rb", "fr", "Fr", "rF", "ur", "bu", "fb", "B", "F"):
            for q in ("'", '"""'):
                if q == '"""' and i % 4:
                    continue
                out.append(("esc2", "%s%s-%d" % (pfx, "3" if q != "'" else "1", i), "x = %s%s%s%s\n" % (pfx, q, f, q)))
    # the same as the first statement (docstring position) and inside a function / class (docstrings)
    for i, f in enumerate(forms):
        out.append(("escdoc", "module-%d" % i, "'%s'\n" % f))
        out.append(("escdoc", "func-%d" % i, "def f():\n    '%s'\n" % f))
        out.append(("escdoc", "class-%d" % i, "class K:\n    '%s'\n    x = 1\n" % f))
        out.append(("escdoc", "bytesfunc-%d" % i, "def f():\n    b'%s'\n" % f))
    return out


def _num_family():
    out = []
    digs = [1, 18, 19, 20, 39, 40, 300, 1000, 4299, 4300, 4301, 5000, 20000]
    for n in digs:
        d = "9" * n
        out.append(("bigint", "dec-%d" % n, "x = %s\n" % d))
        out.append(("bigint", "negdec-%d" % n, "x = -%s\n" % d))
        out.append(("bigint", "hex-%d" % n, "x = 0x%s\n" % ("f" * n)))
        out.append(("bigint", "neghex-%d" % n, "x = -0x%s\n" % ("f" * n)))
        out.append(("bigint", "oct-%d" % n, "x = 0o%s\n" % ("7" * n)))
        out.append(("bigint", "bin-%d" % n, "x = 0b%s\n" % ("1" * n)))
        out.append(("bigint", "under-%d" % n, "x = %s\n" % "_".join(["9"] * min(n, 3000))))
        out.append(("bigfloat", "int-%d" % n, "x = %s.0\n" % d))
        out.append(("bigfloat", "frac-%d" % n, "x = 0.%s\n" % d))
        out.append(("bigfloat", "exp-%d" % n, "x = 1e%s\n" % ("9" * min(n, 40))))
        out.append(("bigfloat", "negexp-%d" % n, "x = 1e-%s\n" % ("9" * min(n, 40))))
        out.append(("bigfloat", "imag-%d" % n, "x = %sj\n" % d))
        out.append(("bigint", "index-%d" % n, "x = id[%s]\n" % d))
        out.append(("bigint", "arith-%d" % n, "x = %s + 1\n" % d))
        out.append(("bigint", "mul-%d" % n, "x = %s * %s\n" % (d, d)))
        out.append(("bigint", "cmp-%d" % n, "x = id < %s\n" % d))
        out.append(("bigint", "default-%d" % n, "def f(a=%s): return a\n" % d))
        out.append(("bigint", "case-%d" % n, "match id:\n    case %s: pass\n" % d))
    for e in ["1 << 64", "1 << 1000", "1 << 100000", "2 ** 64", "2 ** 1000", "2 ** 100000", "10 ** 5000", "2 ** -1", "2 ** 0.5", "(-8) ** (1/3)",
              "1 / 0", "1 // 0", "1 % 0", "1.0 / 0", "1 / 0.0", "0 ** -1", "1j / 0", "divmod(1, 0)", "1 << -1", "1 >> -1", "1 << 2.0",
              "'a' * 10 ** 9", "'a' * -1", "(1,) * 10 ** 6", "[0] * 10 ** 9", "b'a' * 2 ** 40", "'ab' * 2 ** 62", "()* 2 ** 63",
              "1e308 * 10", "-1e308 * 10", "1e308 + 1e308", "9 ** 9 ** 9", "-(2 ** 63)", "-(2 ** 63) - 1", "2 ** 63", "~(2 ** 64)",
              "0x7fffffffffffffff + 1", "-0x8000000000000000 - 1", "1_0 ** 1_0", "0b1 << 0o100", "3 * 'a' * 3", "not 0 ** -1",
              "'%d' % 10 ** 5000", "'%s' % (1, 2)", "'%(a)s' % {}", "'{' .format()", "'a' 'b' * 3", "'abc'[1:2:0]", "[1, 2][-3]",
              "1 if 1 / 0 else 2", "1 and 1 / 0", "0 and 1 / 0", "(1 / 0, 2)[1]", "{1: 1 / 0}", "[1 / 0]", "-(-(-(1)))",
              "True + True", "True / False", "None is None", "1 is 1", "'a' is 'a'", "1 in ()", "1 in (1, 'a')", "'a' in 'abc'", "1 < 'a'",
              "1 < 2 < 'a'", "not 1 < 'a'", "1.5 // 0.5", "1.5 % 0", "float('nan')", "1e999 - 1e999", "1e999 * 0", "-0.0", "0.0 * -1", "1j * 1j", "1j ** 2",
              "(1+2j).real", "abs(-2 ** 63)", "len('a' * 5)", "ord('ab')", "chr(-1)", "chr(0x110000)", "int('z')", "round(1.5, 10 ** 9)"]:
        out.append(("constfold", e, "x = %s\n" % e))
        out.append(("constfold", "ret " + e, "def f():\n    return %s\n" % e))
    return out


def _nest_family(tier):
    out = []
    depths = [10, 30, 60, 90, 150, 199] + ([300, 1000, 3000] if tier != "quick" else [300])
    for n in depths:
        out.append(("nest", "paren-%d" % n, "x = " + "(" * n + "1" + ")" * n + "\n"))
        out.append(("nest", "list-%d" % n, "x = " + "[" * n + "]" * n + "\n"))
        out.append(("nest", "tuple-%d" % n, "x = " + "(" * n + "1" + ",)" * n + "\n"))
        out.append(("nest", "dict-%d" % n, "x = " + "{1:" * n + "1" + "}" * n + "\n"))
        out.append(("nest", "call-%d" % n, "x = " + "id(" * n + "1" + ")" * n + "\n"))
        out.append(("nest", "sub-%d" % n, "x = id" + "[id" * n + "]" * n + "\n"))
        out.append(("nest", "attr-%d" % n, "x = id" + ".a" * n + "\n"))
        out.append(("nest", "callchain-%d" % n, "x = id" + "()" * n + "\n"))
        out.append(("nest", "subchain-%d" % n, "x = id" + "[0]" * n + "\n"))
        out.append(("nest", "unary-%d" % n, "x = " + "-" * n + "1\n"))
        out.append(("nest", "unaryid-%d" % n, "x = " + "-~" * n + "id\n"))
        out.append(("nest", "not-%d" % n, "x = " + "not " * n + "id\n"))
        out.append(("nest", "add-%d" % n, "x = " + "id + " * n + "id\n"))
        out.append(("nest", "addconst-%d" % n, "x = " + "1 + " * n + "1\n"))
        out.append(("nest", "strcat-%d" % n, "x = " + "'a' " * n + "\n"))
        out.append(("nest", "stradd-%d" % n, "x = " + "'a' + " * n + "'b'\n"))
        out.append(("nest", "pow-%d" % n, "x = " + "id ** " * n + "id\n"))
        out.append(("nest", "and-%d" % n, "x = " + "id and " * n + "id\n"))
        out.append(("nest", "or-%d" % n, "x = " + "id or " * n + "id\n"))
        out.append(("nest", "cmp-%d" % n, "x = " + "id < " * n + "id\n"))
        out.append(("nest", "cond-%d" % n, "x = " + "id if id else " * n + "id\n"))
        out.append(("nest", "lambda-%d" % n, "x = " + "lambda: " * n + "id\n"))
        out.append(("nest", "fstr-%d" % n, "x = " + "".join("f%s{" % q for q in (["'", '"'] * n)[:min(n, 150)]) + "id" + "".join("}%s" % q for q in reversed((["'", '"'] * n)[:min(n, 150)])) + "\n"))
        out.append(("nest", "fspec-%d" % n, "x = f'{id:" + "{id:" * min(n, 100) + "}" * min(n, 100) + "}'\n"))
        out.append(("nest", "elif-%d" % n, "if id: pass\n" + "elif id: pass\n" * n))
        out.append(("nest", "args-%d" % n, "id(" + ", ".join(["id"] * n) + ")\n"))
        out.append(("nest", "kwargs-%d" % n, "id(" + ", ".join("k%d=id" % i for i in range(n)) + ")\n"))
        out.append(("nest", "params-%d" % n, "def f(" + ", ".join("p%d" % i for i in range(n)) + "): pass\n"))
        out.append(("nest", "kwonly-%d" % n, "def f(*, " + ", ".join("p%d=%d" % (i, i) for i in range(n)) + "): pass\n"))
        out.append(("nest", "targets-%d" % n, ", ".join("t%d" % i for i in range(n)) + " = id\n"))
        out.append(("nest", "chainassign-%d" % n, " = ".join("t%d" % i for i in range(n)) + " = id\n"))
        out.append(("nest", "targetnest-%d" % n, "(" * n + "t" + ",)" * n + " = id\n"))
        out.append(("nest", "decorators-%d" % n, "@id\n" * n + "def f(): pass\n"))
        out.append(("nest", "globals-%d" % n, "global " + ", ".join("g%d" % i for i in range(n)) + "\n"))
        out.append(("nest", "with-%d" % n, "with " + ", ".join("id as w%d" % i for i in range(n)) + ": pass\n"))
        out.append(("nest", "except-%d" % n, "try: pass\n" + "".join("except E%d: pass\n" % i for i in range(n)).replace("E", "id.E")))
        out.append(("nest", "cases-%d" % n, "match id:\n" + "".join("    case %d: pass\n" % i for i in range(n))))
        out.append(("nest", "orpat-%d" % n, "match id:\n    case " + " | ".join(str(i) for i in range(n + 1)) + ": pass\n"))
        out.append(("nest", "seqpat-%d" % n, "match id:\n    case " + "[" * n + "_" + "]" * n + ": pass\n"))
        out.append(("nest", "compfor-%d" % n, "x = [id " + " ".join("for v%d in id" % i for i in range(n)) + "]\n"))
        out.append(("nest", "compif-%d" % n, "x = [id for v in id " + "if id " * n + "]\n"))
        out.append(("nest", "compnest-%d" % n, "x = " + "[" * n + "id" + " for v in id]" * n + "\n"))
        out.append(("nest", "statements-%d" % n, "x = 1\n" * (n * 20)))
        out.append(("nest", "semis-%d" % n, "x = 1; " * n + "x = 2\n"))
        out.append(("nest", "continuation-%d" % n, "x = 1 + \\\n" * n + "1\n"))
        out.append(("nest", "blanklines-%d" % n, "\n" * n + "x = 1\n" + "\n" * n))
        out.append(("nest", "comment-%d" % n, "#" + "c" * (n * 100) + "\nx = 1\n"))
        out.append(("nest", "longname-%d" % n, "v" + "x" * (n * 30) + " = 1\n"))
        out.append(("nest", "longline-%d" % n, "x = [" + "id, " * (n * 20) + "]\n"))
        out.append(("nest", "dictitems-%d" % n, "x = {" + ", ".join("%d: %d" % (i, i) for i in range(n * 10)) + "}\n"))
        out.append(("nest", "setitems-%d" % n, "x = {" + ", ".join("'s%d'" % i for i in range(n * 10)) + "}\n"))
        out.append(("nest", "slices-%d" % n, "x = id[" + ", ".join(["::"] * n) + "]\n"))
        out.append(("nest", "walrus-%d" % n, "x = " + "(w := " * n + "1" + ")" * n + "\n"))
        out.append(("nest", "await-%d" % n, "async def f():\n    return " + "await " * n + "id\n"))
        out.append(("nest", "yieldparen-%d" % n, "def f():\n    return " + "(yield " * n + "1" + ")" * n + "\n"))
        out.append(("nest", "starargs-%d" % n, "id(" + ", ".join(["*id"] * n) + ", " + ", ".join(["**id"] * n) + ")\n"))
        out.append(("nest", "names-%d" % n, "".join("n%d = %d\n" % (i, i) for i in range(n * 10))))
        out.append(("nest", "strings-%d" % n, "".join("s%d = 's%d'\n" % (i, i) for i in range(n * 10))))
        if n <= 99:
            ind = "".join(" " * i + "if id:\n" for i in range(n)) + " " * n + "pass\n"
            out.append(("nest", "if-%d" % n, ind))
            out.append(("nest", "def-%d" % n, "".join(" " * i + "def f%d():\n" % i for i in range(n)) + " " * n + "pass\n"))
            out.append(("nest", "class-%d" % n, "".join(" " * i + "class K%d:\n" % i for i in range(n)) + " " * n + "pass\n"))
            out.append(("nest", "closure-%d" % n, "".join(" " * i + "def f%d(a%d):\n" % (i, i) for i in range(n)) + " " * n + "return " + " + ".join("a%d" % i for i in range(n)) + "\n"))
        if n <= 30:
            out.append(("nest", "for-%d" % n, "".join(" " * i + "for v%d in id:\n" % i for i in range(n)) + " " * n + "pass\n"))
            out.append(("nest", "while-%d" % n, "".join(" " * i + "while id:\n" for i in range(n)) + " " * n + "break\n"))
            out.append(("nest", "try-%d" % n, "".join(" " * i + "try:\n" for i in range(n)) + " " * n + "pass\n" + "".join(" " * i + "finally:\n" + " " * (i + 1) + "pass\n" for i in reversed(range(n)))))
            out.append(("nest", "withnest-%d" % n, "".join(" " * i + "with id:\n" for i in range(n)) + " " * n + "pass\n"))
            out.append(("nest", "matchnest-%d" % n, "".join("  " * i + "match id:\n" + "  " * i + " case _:\n" for i in range(n)) + "  " * n + "pass\n"))
    return out


def _layout_family():
    B = []
    def add(name, data):
        B.append(("layout", name, data))
    add("empty", b"")
    add("nl", b"\n")
    add("spaces", b"   \n  \n")
    add("comment-only", b"# c")
    add("no-eol", b"x = 1")
    add("crlf", b"x = 1\r\nif x:\r\n    y = 2\r\n")
    add("cr", b"x = 1\rif x:\r    y = 2\r")
    add("mixed-eol", b"x = 1\r\ny = 2\nz = 3\r")
    add("bom", b"\xef\xbb\xbfx = 1\n")
    add("bom-cookie", b"\xef\xbb\xbf# coding: utf-8\nx = 1\n")
    add("bom-cookie-latin1", b"\xef\xbb\xbf# coding: latin-1\nx = 1\n")
    add("cookie-latin1", b"# coding: latin-1\nx = '\xe9'\n")
    add("cookie-latin1-line2", b"#!/usr/bin/python\n# -*- coding: iso-8859-1 -*-\nx = '\xe9'\n")
    add("cookie-line3", b"#\n#\n# coding: latin-1\nx = '\xe9'\n")
    add("cookie-unknown", b"# coding: nonexistent-codec\nx = 1\n")
    add("cookie-utf16", b"# coding: utf-16\nx = 1\n")
    add("cookie-cp1252", b"# coding: cp1252\nx = '\x80'\n")
    add("cookie-ascii-bad", b"# coding: ascii\nx = '\xe9'\n")
    add("cookie-utf8-bad", b"# coding: utf-8\nx = '\xe9'\n")
    add("cookie-vim", b"# vim: set fileencoding=latin-1 :\nx = '\xe9'\n")
    add("nocookie-latin1", b"x = '\xe9'\n")
    add("utf8-ident", "é = 1\nprint(é)\n".encode("utf8"))
    add("utf8-ident-nfkc", "ﬁ = 1\nprint(fi)\n".encode("utf8"))
    add("utf8-ident-cjk", "変数 = 1\nx = 変数\n".encode("utf8"))
    add("utf8-ident-bad", "x€ = 1\n".encode("utf8"))
    add("utf8-astral-str", "x = '\U0001f600'\n".encode("utf8"))
    add("utf8-astral-ident", "\U0001d4d0 = 1\n".encode("utf8"))
    add("utf8-overlong", b"x = '\xc0\x80'\n")
    add("utf8-surrogate-bytes", b"x = '\xed\xa0\x80'\n")
    add("utf8-truncated", b"x = '\xe2\x82'\n")
    add("utf8-nbsp", "x =\u00a01\n".encode("utf8"))
    add("utf8-zwsp", "x =\u200b1\n".encode("utf8"))
    add("utf8-ls", "x = 1\u2028y = 2\n".encode("utf8"))
    add("utf8-nel", "x = 1\u0085y = 2\n".encode("utf8"))
    add("utf8-fullwidth-digit", "x = １\n".encode("utf8"))
    add("utf8-fullwidth-paren", "x = （1）\n".encode("utf8"))
    add("nul", b"x = 1\x00\n")
    add("nul-str", b"x = 'a\x00b'\n")
    add("nul-comment", b"# a\x00b\nx = 1\n")
    add("ctrl-z", b"x = 1\n\x1a")
    add("ctrl-chars", b"x = 1\x01\n")
    add("del-char", b"x = 1\x7f\n")
    add("ff-start", b"\x0cx = 1\n")
    add("ff-indent", b"if 1:\n\x0c    x = 1\n")
    add("ff-mid", b"x = 1\n\x0c\ny = 2\n")
    add("vt", b"x = 1\n\x0by = 2\n")
    add("tab-indent", b"if 1:\n\tx = 1\n\ty = 2\n")
    add("tab-space-same", b"if 1:\n\tx = 1\n        y = 2\n")
    add("space-tab-mix", b"if 1:\n    x = 1\n\ty = 2\n")
    add("tab8", b"if 1:\n        x = 1\n\ty = 2\n")
    add("indent-unexpected", b"x = 1\n    y = 2\n")
    add("indent-first", b"    x = 1\n")
    add("dedent-bad", b"if 1:\n        x = 1\n    y = 2\n")
    add("dedent-comment", b"if 1:\n    x = 1\n  # c\n    y = 2\n")
    add("dedent-eof", b"if 1:\n    if 2:\n        x = 1")
    add("indent-continuation", b"x = (1 +\n  2 +\n        3)\n")
    add("indent-in-brackets", b"x = [\n1,\n    2,\n  3]\n")
    add("bs-eof", b"x = 1 \\")
    add("bs-eof-nl", b"x = 1 \\\n")
    add("bs-space", b"x = 1 \\ \n+ 2\n")
    add("bs-comment", b"x = 1 \\ # c\n+ 2\n")
    add("bs-in-comment", b"# c \\\nx = 1\n")
    add("bs-blank", b"\\\nx = 1\n")
    add("bs-indent", b"if 1:\n    \\\n    x = 1\n")
    add("bs-crlf", b"x = 1 + \\\r\n2\r\n")
    add("bs-in-str", b"x = 'a\\\nb'\n")
    add("semicolon-only", b";\n")
    add("semicolons", b"x = 1;;\n")
    add("semi-start", b"; x = 1\n")
    add("colon-only", b":\n")
    add("unterminated-str", b"x = 'abc\n")
    add("unterminated-triple", b"x = '''abc\n")
    add("unterminated-fstr", b"x = f'{id\n")
    add("unterminated-fstr2", b"x = f'{id'\n")
    add("unterminated-paren", b"x = (1,\n")
    add("unterminated-bracket-eof", b"x = [")
    add("unbalanced", b"x = (1]\n")
    add("close-only", b")\n")
    add("str-eof", b"'")
    add("triple-eof", b"'''")
    add("fstr-eof", b"f'{")
    add("fstr-brace", b"x = f'}'\n")
    add("fstr-empty-expr", b"x = f'{}'\n")
    add("fstr-bang", b"x = f'{id!}'\n")
    add("fstr-bang-x", b"x = f'{id!x}'\n")
    add("fstr-nested-same-quote", b"x = f'{id['a']}'\n")
    add("fstr-backslash-expr", b"x = f'{\"\\n\".join(id)}'\n")
    add("fstr-comment", b"x = f'{id # c}'\n")
    add("fstr-lambda", b"x = f'{lambda x: 1}'\n")
    add("fstr-walrus", b"x = f'{w:=1}'\n")
    add("fstr-eq-spaces", b"x = f'{ id  =  }'\n")
    add("fstr-yield", b"def f():\n    return f'{yield}'\n")
    add("fstr-await", b"async def f():\n    return f'{await id}'\n")
    add("fstr-dict", b"x = f'{ {1: 2} }'\n")
    add("fstr-set-comp", b"x = f'{ {i for i in id} }'\n")
    add("fstr-not-eq", b"x = f'{id!=1}'\n")
    add("fstr-colon-colon", b"x = f'{id::}'\n")
    add("fstr-triple-nested", b"x = f'''{f\"\"\"{f'{f\"{1}\"}'}\"\"\"}'''\n")
    add("fstr-bytes", b"x = bf'{id}'\n")
    add("fstr-doc", b"def f():\n    f'{id}'\n")
    add("fstr-doc-module", b"f'doc'\n")
    add("weird-ops", b"x = 1 <> 2\n")
    add("backtick", b"x = `1`\n")
    add("dollar", b"x = $1\n")
    add("qmark", b"x = ?\n")
    add("bang", b"x = !1\n")
    add("at-only", b"@\n")
    add("arrow-only", b"->\n")
    add("ellipsis-spaced", b"x = . . .\n")
    add("dot-only", b".\n")
    add("walrus-top", b"x := 1\n")
    add("star-only", b"*\n")
    add("print-stmt", b"print 1\n")
    add("print-first-fn", b"print(1, file=None)\n")
    add("print-later-fn", b"x = 1\nprint(1, file=None)\n")
    add("exec-stmt", b"exec 'x'\n")
    add("exec-first-fn", b"exec('x')\n")
    add("exec-later-fn", b"x = 1\nexec('x')\n")
    add("py2-except", b"try: pass\nexcept E, e: pass\n")
    add("py2-raise", b"raise E, 'x'\n")
    add("py2-octal", b"x = 0777\n")
    add("py2-long", b"x = 1L\n")
    add("py2-ur", b"x = ur'a'\n")
    add("py2-backticks", b"x = `x`\n")
    add("py2-ne", b"x = 1 <> 2\n")
    add("cdef-in-py", b"cdef int x = 1\n")
    add("ctypedef-in-py", b"ctypedef int t\n")
    add("cimport-in-py", b"cimport cython\n")
    add("cython-cast-in-py", b"x = <int>1\n")
    add("include-in-py", b"include 'x.pxi'\n")
    add("DEF-in-py", b"DEF X = 1\n")
    add("IF-in-py", b"IF 1:\n    x = 1\n")
    add("ampersand-in-py", b"x = &y\n")
    add("sizeof-in-py", b"x = sizeof(int)\n")
    add("null-in-py", b"x = NULL\n")
    add("new-in-py", b"x = new Foo()\n")
    add("directive-comment", b"# cython: language_level=3\nx = 1\n")
    add("directive-comment-2", b"# cython: language_level=2\nprint 1\n")
    add("distutils-comment", b"# distutils: language = c++\nx = 1\n")
    add("tag-comment", b"# tag: x\n# mode: error\nx = 1\n")
    add("future-unknown", b"from __future__ import nonexistent\n")
    add("future-braces", b"from __future__ import braces\n")
    add("future-late", b"x = 1\nfrom __future__ import annotations\n")
    add("future-all", b"from __future__ import (absolute_import, division, print_function, unicode_literals, generators, nested_scopes, with_statement, generator_stop, annotations)\n")
    add("flufl", b"from __future__ import barry_as_FLUFL\nx = 1 <> 2\n")
    add("import-star-func", b"def f():\n    from os import *\n")
    add("import-dots", b"from .... import x\n")
    add("import-dot-name", b"import .x\n")
    add("import-as-dotted", b"import a.b as c.d\n")
    add("import-cython", b"import cython\n@cython.cfunc\ndef f(x: cython.int) -> cython.int:\n    return x\n")
    add("annot-str-bad", b"def f(x: 'int[') -> 'not a type': pass\n")
    add("annot-weird", b"def f(x: 1 + 1, y: [int], z: {1: 2}, *a: (yield)): pass\n")
    add("annot-lambda", b"def f(x: lambda: 1 = 2): pass\n")
    add("annot-var-types", b"x: int = 1\ny: float = x\nz: str = 'a'\nw: bytes = b'a'\nv: list = []\nu: dict = {}\nt: tuple = ()\ns: set = set()\n")
    add("annot-self-ref", b"class K:\n    def f(self) -> K: return self\n")
    add("annot-forward", b"def f(x: Later): pass\nclass Later: pass\n")
    add("annot-optional", b"from typing import Optional\ndef f(x: Optional[int] = None): return x\n")
    add("annot-union-bar", b"def f(x: int | None = None): return x\n")
    add("annot-generic", b"def f(x: list[int], y: dict[str, list[int]]) -> tuple[int, ...]: return (1,)\n")
    add("annot-classvar", b"import typing\nclass K:\n    x: typing.ClassVar[int] = 1\n")
    add("annot-final", b"from typing import Final\nX: Final = 1\n")
    add("annot-star", b"def f(*args: *tuple[int, ...]): pass\n")
    add("annot-nested-func", b"def f():\n    x: int\n    def g(): return x\n    return g\n")
    add("annot-global", b"def f():\n    global x\n    x: int = 1\n")
    add("annot-attr", b"class K: pass\nK.x: int = 1\n")
    add("annot-sub", b"d = {}\nd['a']: int = 1\n")
    add("annot-tuple-target", b"x, y: int = 1, 2\n")
    add("dunder-debug-assign", b"__debug__ = 1\n")
    add("none-assign", b"None = 1\n")
    add("true-del", b"del True\n")
    add("kw-as-name", b"class = 1\n")
    add("kw-as-attr", b"x.class = 1\n")
    add("kw-as-kwarg", b"f(class=1)\n")
    add("soft-kw-names", b"match = case = type = _ = 1\nprint(match, case, type, _)\n")
    add("async-name", b"async = 1\n")
    add("await-name", b"await = 1\n")
    add("await-outside", b"x = await id\n")
    add("await-in-def", b"def f():\n    await id\n")
    add("async-for-outside", b"async for x in id: pass\n")
    add("async-comp-outside", b"x = [i async for i in id]\n")
    add("async-comp-in-def", b"def f():\n    return [i async for i in id]\n")
    add("async-genexp-in-def", b"def f():\n    return (i async for i in id)\n")
    add("yield-outside", b"yield 1\n")
    add("yield-in-class", b"class K:\n    yield 1\n")
    add("yield-in-comp", b"def f():\n    return [(yield) for i in id]\n")
    add("yield-in-genexp", b"def f():\n    return ((yield) for i in id)\n")
    add("yield-from-async", b"async def f():\n    yield from id\n")
    add("return-outside", b"return 1\n")
    add("return-in-class", b"class K:\n    return 1\n")
    add("return-value-asyncgen", b"async def f():\n    yield 1\n    return 2\n")
    add("break-outside", b"break\n")
    add("continue-outside", b"continue\n")
    add("break-in-finally", b"for x in id:\n    try: pass\n    finally: break\n")
    add("continue-in-finally", b"for x in id:\n    try: pass\n    finally: continue\n")
    add("break-in-def-in-loop", b"for x in id:\n    def f(): break\n")
    add("break-in-class-in-loop", b"for x in id:\n    class K: break\n")
    add("nonlocal-module", b"nonlocal x\n")
    add("nonlocal-nobinding", b"def f():\n    nonlocal x\n")
    add("nonlocal-global", b"x = 1\ndef f():\n    def g():\n        nonlocal x\n")
    add("nonlocal-param", b"def f(x):\n    def g(x):\n        nonlocal x\n")
    add("nonlocal-class", b"def f():\n    x = 1\n    class K:\n        nonlocal x\n        x = 2\n")
    add("global-param", b"def f(x):\n    global x\n")
    add("global-after-use", b"def f():\n    print(x)\n    global x\n")
    add("global-after-assign", b"def f():\n    x = 1\n    global x\n")
    add("global-nonlocal", b"def f():\n    x = 1\n    def g():\n        global x\n        nonlocal x\n")
    add("global-class", b"class K:\n    global x\n    x = 1\n")
    add("global-loop-var", b"def f():\n    global x\n    for x in id: pass\n")
    add("global-import", b"def f():\n    global os\n    import os\n")
    add("global-def", b"def f():\n    global g\n    def g(): pass\n")
    add("global-class-def", b"def f():\n    global K\n    class K: pass\n")
    add("global-with", b"def f():\n    global w\n    with id as w: pass\n")
    add("global-except", b"def f():\n    global e\n    try: pass\n    except id as e: pass\n")
    add("global-walrus", b"def f():\n    global w\n    return (w := 1)\n")
    add("global-comp-walrus", b"def f():\n    global w\n    return [(w := i) for i in id]\n")
    add("global-match", b"def f():\n    global m\n    match id:\n        case m: pass\n")
    add("global-del", b"def f():\n    global d\n    del d\n")
    add("global-aug", b"def f():\n    global a\n    a += 1\n")
    add("global-ann", b"def f():\n    global a\n    a: int\n")
    add("del-undefined", b"del nowhere\n")
    add("del-local-twice", b"def f():\n    x = 1\n    del x\n    del x\n")
    add("del-param", b"def f(x):\n    del x\n    return x\n")
    add("del-closure", b"def f():\n    x = 1\n    def g(): return x\n    del x\n")
    add("del-call", b"del id()\n")
    add("del-literal", b"del 1\n")
    add("del-star", b"del *x\n")
    add("del-empty-tuple", b"del ()\n")
    add("del-nested", b"a = b = c = 1\ndel (a, [b, (c,)])\n")
    add("del-attr-chain", b"del id.a.b.c, id[1][2], id().x\n")
    add("del-slice", b"del id[1:2, ::3]\n")
    add("assign-call", b"id() = 1\n")
    add("assign-literal", b"1 = x\n")
    add("assign-op", b"x + 1 = 2\n")
    add("assign-cond", b"(x if y else z) = 1\n")
    add("assign-genexp", b"(i for i in id) = 1\n")
    add("assign-comp", b"[i for i in id] = 1\n")
    add("assign-lambda", b"(lambda: 1) = 1\n")
    add("assign-fstr", b"f'{x}' = 1\n")
    add("assign-ellipsis", b"... = 1\n")
    add("assign-two-star", b"*a, *b = id\n")
    add("assign-star-alone", b"*a = id\n")
    add("assign-star-list", b"[*a] = id\n")
    add("assign-star-many", ", ".join("t%d" % i for i in range(300)).encode() + b", *r = id\n")
    add("assign-star-257", ", ".join("t%d" % i for i in range(257)).encode() + b", *r = id\n")
    add("assign-empty-tuple", b"() = id\n")
    add("assign-empty-list", b"[] = id\n")
    add("assign-walrus-attr", b"(x.y := 1)\n")
    add("assign-walrus-sub", b"(x[0] := 1)\n")
    add("aug-tuple", b"x, y += 1\n")
    add("aug-list", b"[x] += 1\n")
    add("aug-call", b"id() += 1\n")
    add("aug-star", b"*x += 1\n")
    add("aug-chain", b"x += y += 1\n")
    add("aug-walrus", b"x += (y := 1)\n")
    add("aug-all", b"x = 1\nx += 1; x -= 1; x *= 1; x /= 1; x //= 1; x %= 1; x **= 1; x >>= 1; x <<= 1; x &= 1; x ^= 1; x |= 1; x @= 1\n")
    add("aug-undefined-local", b"def f():\n    x += 1\n")
    add("aug-attr-call", b"id().x += 1\nid()[id()] += 1\n")
    add("aug-slice", b"id[1:2] += [1]\nid[::2] *= 2\nid[...] -= 1\nid[1, 2] //= 3\n")
    add("dup-param", b"def f(x, x): pass\n")
    add("dup-kwarg", b"id(a=1, a=2)\n")
    add("dup-param-lambda", b"f = lambda x, x: 1\n")
    add("param-default-order", b"def f(x=1, y): pass\n")
    add("param-star-star", b"def f(**k, x): pass\n")
    add("param-two-star", b"def f(*a, *b): pass\n")
    add("param-bare-star-end", b"def f(*): pass\n")
    add("param-bare-star-kwargs", b"def f(*, **k): pass\n")
    add("param-slash-first", b"def f(/, x): pass\n")
    add("param-two-slash", b"def f(x, /, y, /): pass\n")
    add("param-slash-after-star", b"def f(*a, /): pass\n")
    add("param-kwonly-fwd-default", b"G = 1\ndef f(*, a=G, G=G): return a\n")
    add("param-kwonly-fwd-default2", b"_KEEP = object()\nclass T:\n    def replace(self, *, name=_KEEP, _KEEP=_KEEP): return name\n")
    add("param-default-self-ref", b"def f(a, b=a): pass\n")
    add("param-default-later-global", b"def f(a=later): pass\nlater = 1\n")
    add("param-default-walrus", b"def f(a=(w := 1)): return a\n")
    add("param-default-lambda", b"def f(a=lambda: (yield)): return a\n")
    add("param-default-comp", b"def f(a=[i for i in id], b={i: i for i in id}): return a\n")
    add("param-named-like-builtin", b"def f(int, len, print): return int(len(print))\n")
    add("param-named-self", b"class K:\n    def f(): pass\n    def g(*self): pass\n    def h(**self): pass\n")
    add("call-kw-after-star", b"id(*a, b=1, *c, **d, e=2, **f)\n")
    add("call-pos-after-kw", b"id(a=1, 2)\n")
    add("call-pos-after-starstar", b"id(**a, *b)\n")
    add("call-genexp-two", b"id(i for i in a, 1)\n")
    add("call-genexp-paren", b"id((i for i in a), 1)\n")
    add("call-kw-expr", b"id(a.b=1)\n")
    add("call-kw-literal", b"id(1=2)\n")
    add("call-kw-none", b"id(None=1)\n")
    add("call-walrus", b"id(w := 1)\nid(a, w := 1)\nid(k=(w := 1))\n")
    add("call-walrus-kw-bad", b"id(k=w := 1)\n")
    add("class-kw-only", b"class K(metaclass=type): pass\n")
    add("class-two-meta", b"class K(metaclass=type, metaclass=type): pass\n")
    add("class-genexp-base", b"class K(i for i in id): pass\n")
    add("class-star-base", b"class K(*id, **id): pass\n")
    add("class-walrus-base", b"class K(w := id): pass\n")
    add("class-nested-same-name", b"class K:\n    class K:\n        class K: pass\n")
    add("class-body-comp-scope", b"class K:\n    a = 1\n    b = [a for _ in id]\n    c = [i for i in [a]]\n")
    add("class-body-lambda", b"class K:\n    a = 1\n    f = lambda self: a\n")
    add("class-dunder-class", b"class K:\n    def f(self): return __class__\n    def g(self): return super().g()\n")
    add("class-private", b"class K:\n    __x = 1\n    def f(self): return self.__x + __y\n")
    add("class-slots-str", b"class K:\n    __slots__ = 'a'\n")
    add("class-del-attr", b"class K:\n    x = 1\n    del x\n")
    add("class-return-annotation", b"class K:\n    x: int\n    y: 'K' = None\n")
    add("class-prepare", b"class M(type):\n    @classmethod\n    def __prepare__(m, n, b): return {}\nclass K(metaclass=M): pass\n")
    add("class-in-func-closure", b"def f(x):\n    class K:\n        y = x\n        def g(self): return x\n    return K\n")
    add("class-global-stmt-method", b"class K:\n    def f(self):\n        global K\n        K = 1\n")
    add("decorator-walrus", b"@(w := id)\ndef f(): pass\n")
    add("decorator-subscript", b"@id[0]\ndef f(): pass\n")
    add("decorator-lambda", b"@lambda f: f\ndef f(): pass\n")
    add("decorator-call-chain", b"@id()()[0].x\ndef f(): pass\n")
    add("decorator-cond", b"@id if id else id\ndef f(): pass\n")
    add("decorator-await", b"async def g():\n    @await id\n    def f(): pass\n")
    add("decorator-comp-func", b"@[i for i in id][0]\ndef f(): pass\n")
    add("decorator-comp-class", b"@[i for i in id][0]\nclass K: pass\n")
    add("decorator-genexp-class", b"@(i for i in id)\nclass K: pass\n")
    add("decorator-on-assign", b"@id\nx = 1\n")
    add("decorator-alone", b"@id\n")
    add("lambda-defaults", b"f = lambda a, b=1, *c, d, e=2, **g: (a, b, c, d, e, g)\n")
    add("lambda-posonly", b"f = lambda a, /, b: a\n")
    add("lambda-annot", b"f = lambda a: int: a\n")
    add("lambda-yield", b"f = lambda: (yield)\n")
    add("lambda-await", b"async def g():\n    return lambda: await id\n")
    add("lambda-walrus", b"f = lambda: (w := 1)\n")
    add("lambda-in-default", b"f = lambda a=lambda b=lambda: 1: b: a\n")
    add("lambda-star-only", b"f = lambda *: 1\n")
    add("lambda-in-class-default", b"class K:\n    a = 1\n    f = lambda self, b=a: b\n")
    add("comp-scope-leak", b"x = [i for i in id]\nprint(i)\n")
    add("comp-walrus-iter", b"x = [i for i in (w := id)]\n")
    add("comp-walrus-rebind", b"x = [i := 1 for i in id]\n")
    add("comp-walrus-class", b"class K:\n    x = [(w := i) for i in id]\n")
    add("comp-nested-walrus", b"x = [[(w := j) for j in i] for i in id]\nprint(w)\n")
    add("comp-cond-expr", b"x = [i if i else 0 for i in id if i if not i]\n")
    add("comp-lambda-cond", b"x = [i for i in id if (lambda: i)()]\n")
    add("comp-star", b"x = [*i for i in id]\n")
    add("comp-dict-star", b"x = {**i for i in id}\n")
    add("comp-tuple-unparen", b"x = [i, j for i in id]\n")
    add("comp-target-attr", b"x = [1 for id.a in id]\n")
    add("comp-target-sub", b"x = [1 for id[0] in id]\n")
    add("comp-target-star", b"x = [a for *a, b in id]\n")
    add("comp-await", b"async def f():\n    return [await i for i in id], {await i: await i for i in id}, {await i async for i in id}\n")
    add("comp-in-default-class", b"class K:\n    a = 1\n    def f(self, b=[a for _ in id]): pass\n")
    add("genexp-call-kw", b"id(i for i in id, k=1)\n")
    add("genexp-class-body", b"class K:\n    a = 1\n    g = (a for _ in id)\n")
    add("try-bare-not-last", b"try: pass\nexcept: pass\nexcept E: pass\n")
    add("try-else-no-except", b"try: pass\nelse: pass\n")
    add("try-alone", b"try: pass\n")
    add("try-star-mixed", b"try: pass\nexcept* A: pass\nexcept B: pass\n")
    add("try-star-bare", b"try: pass\nexcept*: pass\n")
    add("try-star-return", b"def f():\n    try: pass\n    except* A: return\n")
    add("try-star-break", b"for x in id:\n    try: pass\n    except* id: break\n")
    add("try-star-valid", b"try: pass\nexcept* id as e: raise\nexcept* (id, id): pass\nelse: pass\nfinally: pass\n")
    add("try-except-star-space", b"try: pass\nexcept *id: pass\n")
    add("try-return-finally", b"def f():\n    try: return 1\n    finally: return 2\n")
    add("try-yield-finally", b"def f():\n    try: yield 1\n    finally: yield 2\n")
    add("try-nested-raise-from", b"try:\n    try: raise id\n    except id as e: raise id from e\n    finally: del e\nexcept* id: pass\n")
    add("try-except-del-name", b"try: pass\nexcept id as e: del e\nprint(e)\n")
    add("try-except-same-name", b"e = 1\ntry: pass\nexcept id as e: pass\nprint(e)\n")
    add("try-except-nonname", b"try: pass\nexcept id as e.x: pass\n")
    add("try-except-tuple-noparen", b"try: pass\nexcept A, B: pass\n")
    add("raise-from-none", b"raise id from None\n")
    add("raise-from-only", b"raise from id\n")
    add("raise-three", b"raise id, id, id\n")
    add("raise-in-finally-bare", b"try: pass\nfinally: raise\n")
    add("raise-class-call", b"raise ValueError('x') from TypeError\n")
    add("assert-tuple", b"assert (1, 'msg')\n")
    add("assert-walrus", b"assert (w := id), w\n")
    add("assert-lambda", b"assert lambda: 1, lambda: 2\n")
    add("with-paren-trailing", b"with (id as a, id as b,): pass\n")
    add("with-paren-noas", b"with (id, id): pass\n")
    add("with-paren-mixed", b"with (id, id as b): pass\n")
    add("with-paren-tuple-as", b"with (id, id) as t: pass\n")
    add("with-target-star", b"with id as (a, *b): pass\n")
    add("with-target-attr", b"with id as id.x, id as id[0]: pass\n")
    add("with-target-call", b"with id as f(): pass\n")
    add("with-target-literal", b"with id as 1: pass\n")
    add("with-empty", b"with : pass\n")
    add("with-walrus", b"with (w := id): pass\n")
    add("with-yield", b"def f():\n    with (yield) as a, (yield a): pass\n")
    add("with-await", b"async def f():\n    async with await id as a, id as b: pass\n    with await id: pass\n")
    add("with-return", b"def f():\n    with id:\n        return 1\n")
    add("with-break-continue", b"for x in id:\n    with id:\n        if x: break\n        continue\n")
    add("for-else-break", b"for x in id:\n    break\nelse:\n    pass\n")
    add("for-target-call", b"for f() in id: pass\n")
    add("for-target-literal", b"for 1 in id: pass\n")
    add("for-target-attr-sub", b"for id.a, id[0] in id: pass\n")
    add("for-target-nested-star", b"for a, (b, *c), [d, e] in id: pass\n")
    add("for-iter-star", b"for x in *id, *id: pass\n")
    add("for-iter-lambda", b"for x in lambda: 1: pass\n")
    add("for-iter-yield", b"def f():\n    for x in (yield): pass\n")
    add("for-iter-walrus", b"for x in (w := id): pass\n")
    add("for-in-in", b"for x in id in id: pass\n")
    add("for-range-forms", b"for i in range(10): pass\nfor i in range(1, 10): pass\nfor i in range(10, 0, -1): pass\nfor i in range(0, 10, 0): pass\n")
    add("for-range-float", b"for i in range(1.5): pass\n")
    add("for-range-kw", b"for i in range(stop=3): pass\n")
    add("for-enumerate-forms", b"for i, x in enumerate(id): pass\nfor i, x in enumerate(id, 1): pass\nfor i, x in enumerate(id, start=1): pass\n")
    add("for-zip-reversed-sorted", b"for a, b in zip(id, id): pass\nfor a in reversed(id): pass\nfor a in sorted(id): pass\nfor k in id.keys(): pass\nfor k, v in id.items(): pass\n")
    add("for-dict-iter-forms", b"d = {}\nfor k in d: pass\nfor k, v in d.items(): pass\nfor k in d.keys(): pass\nfor v in d.values(): pass\nfor x in d.iteritems(): pass\n")
    add("for-str-bytes-iter", b"for c in 'abc': pass\nfor b in b'abc': pass\nfor x in (1, 2, 3): pass\nfor x in [1, 2]: pass\nfor x in {1, 2}: pass\nfor x in {1: 2}: pass\nfor x in (): pass\nfor x in '': pass\nfor x in []: pass\n")
    add("while-else-continue", b"while id:\n    continue\nelse:\n    pass\n")
    add("while-walrus", b"while (w := id()) is not None: pass\n")
    add("while-const", b"while 1: break\nwhile 0: pass\nwhile True: break\nwhile None: pass\nwhile 'a': break\nwhile (): pass\n")
    add("if-const", b"if 0: x = 1\nelif 1: x = 2\nelse: x = 3\nif __debug__: pass\nif not __debug__: pass\nif None: pass\nif ...: pass\nif 'a' 'b': pass\nif (): pass\nif 1.0: pass\nif 0j: pass\n")
    add("if-walrus-chain", b"if (a := id) and (b := a) or (c := b): pass\n")
    add("if-in-tuple", b"if id in (1, 2, 3): pass\nif id not in ('a', 'b'): pass\nif id in (): pass\nif id in [1]: pass\nif id in {1, 2}: pass\nif id in 'abc': pass\nif id in b'abc': pass\nif id in (id, id()): pass\nif id in (1, 'a', None, 1.5, b'x'): pass\n")
    add("match-no-case", b"match id:\n    pass\n")
    add("match-irrefutable-first", b"match id:\n    case x: pass\n    case 1: pass\n")
    add("match-or-different-names", b"match id:\n    case [x] | [y]: pass\n")
    add("match-dup-names", b"match id:\n    case [x, x]: pass\n")
    add("match-two-stars", b"match id:\n    case [*a, *b]: pass\n")
    add("match-map-rest-wild", b"match id:\n    case {**_}: pass\n")
    add("match-map-dup-key", b"match id:\n    case {1: a, 1: b}: pass\n")
    add("match-map-expr-key", b"match id:\n    case {1 + 1: a}: pass\n")
    add("match-map-rest-middle", b"match id:\n    case {**r, 1: a}: pass\n")
    add("match-class-dup-kw", b"match id:\n    case int(a=1, a=2): pass\n")
    add("match-class-pos-after-kw", b"match id:\n    case int(a=1, 2): pass\n")
    add("match-neg-str", b"match id:\n    case -'a': pass\n")
    add("match-complex-forms", b"match id:\n    case 1 + 2j | 1 - 2j | -1 + 2j | -1.5 - 0j | 0j | -0.0: pass\n")
    add("match-complex-bad", b"match id:\n    case 1j + 2: pass\n")
    add("match-complex-bad2", b"match id:\n    case 1 + 2: pass\n")
    add("match-fstring", b"match id:\n    case f'{x}': pass\n")
    add("match-strcat", b"match id:\n    case 'a' 'b' | b'a' b'b': pass\n")
    add("match-strcat-mixed", b"match id:\n    case 'a' b'b': pass\n")
    add("match-value-deep", b"match id:\n    case a.b.c.d: pass\n")
    add("match-value-call", b"match id:\n    case a.b(): pass\n")
    add("match-keyword-subject", b"match match:\n    case case: pass\n")
    add("match-as-name", b"match = 1\nmatch\nmatch()\nmatch[0]\nmatch.x\nmatch - 1\nmatch * 2\nmatch: int = 1\n")
    add("match-call-colon", b"match(id): pass\n") 
    add("match-star-subject", b"match *id, id:\n    case [*_]: pass\n")
    add("match-star-alone", b"match *id:\n    case _: pass\n")
    add("match-walrus-subject", b"match (w := id):\n    case _: pass\n")
    add("match-guard-walrus", b"match id:\n    case x if (w := x) > 1: pass\n")
    add("match-as-wild", b"match id:\n    case _ as x: pass\n")
    add("match-as-as", b"match id:\n    case (1 as a) as b: pass\n")
    add("match-as-nonname", b"match id:\n    case 1 as a.b: pass\n")
    add("match-as-underscore", b"match id:\n    case 1 as _: pass\n")
    add("match-paren-star", b"match id:\n    case (*a,): pass\n    case (*a): pass\n")
    add("match-group-seq", b"match id:\n    case (a): pass\n")
    add("match-none-true", b"match id:\n    case None | True | False: pass\n")
    add("match-dotted-keyword", b"match id:\n    case a.match.case: pass\n")
    add("match-in-class-def-loop", b"class K:\n    for i in id:\n        match i:\n            case 1: break\n            case 2: continue\n            case _:\n                def f(): return i\n")
    add("match-def-in-case", b"match id:\n    case 1:\n        def f(): pass\n    case 2:\n        class K: pass\n    case 3:\n        import os\n    case 4:\n        global g\n        g = lambda: 1\n")
    add("match-return-yield", b"def f():\n    match (yield):\n        case 1: return (yield)\n        case x: yield x\n")
    add("match-await", b"async def f():\n    match await id:\n        case x if await x: return await x\n")
    add("match-many-captures", b"match id:\n    case [" + b", ".join(b"c%d" % i for i in range(300)) + b"]: pass\n")
    add("match-mapping-many", b"match id:\n    case {" + b", ".join(b"%d: k%d" % (i, i) for i in range(200)) + b", **rest}: pass\n")
    add("match-class-many", b"match id:\n    case int(" + b", ".join(b"a%d=%d" % (i, i) for i in range(200)) + b"): pass\n")
    add("type-alias", b"type X = int\n")
    add("type-alias-generic", b"type X[T, *Ts, **P] = tuple[T, *Ts]\n")
    add("type-as-name", b"type = 1\ntype(1)\ntype X = int\ntype: int = 1\n")
    add("generic-def", b"def f[T](x: T) -> T: return x\n")
    add("generic-class", b"class K[T: int, U: (str, bytes)]: pass\n")
    add("generic-dup", b"def f[T, T](): pass\n")
    add("generic-empty", b"def f[](): pass\n")
    add("generic-yield-bound", b"def g():\n    def f[T: (yield)](): pass\n")
    add("generic-method", b"class K:\n    def f[T](self, x: T) -> T: return x\n")
    add("star-expr-alone", b"*id\n")
    add("star-expr-assign", b"x = *id\n")
    add("star-expr-paren", b"x = (*id)\n")
    add("star-expr-return", b"def f(): return *id, 1\n")
    add("star-expr-yield", b"def f(): yield *id, 1\n")
    add("star-expr-index", b"x = id[*id]\ny = id[*id, 1]\nid[*id] = 1\ndel id[*id]\n")
    add("star-expr-slice", b"x = id[*id:1]\n")
    add("star-expr-for", b"for x in *id, 1: pass\n")
    add("star-expr-cond", b"x = *id if id else id,\n")
    add("star-expr-double", b"x = **id\n")
    add("star-in-set-dict", b"x = {*id, *id}\ny = {**id, **id, 'a': 1}\nz = {*id: 1}\n")
    add("star-in-call-many", b"id(*id, *id, id, *id, k=id, **id, **id)\n")
    add("star-in-print", b"print(*id, sep='')\n")
    add("dict-star-bad", b"x = {**id: 1}\n")
    add("dict-mixed-set", b"x = {1: 2, 3}\n")
    add("dict-trailing", b"x = {1: 2,}\ny = {1,}\nz = {*id,}\nw = {**id,}\n")
    add("dict-dup-keys", b"x = {1: 1, 1: 2, 1.0: 3, True: 4, 'a': 1, 'a': 2}\n")
    add("set-dup", b"x = {1, 1, 1.0, True}\n")
    add("set-unhashable", b"x = {[], {}}\ny = {[]: 1}\n")
    add("slice-forms", b"x = id[:]\nx = id[::]\nx = id[1:]\nx = id[:1]\nx = id[1:2]\nx = id[1:2:3]\nx = id[::3]\nx = id[:, :]\nx = id[..., 1]\nx = id[1:2, ::3, ...]\nx = id[()]\nx = id[(1, 2)]\nx = id[1,]\nx = id[:,]\n")
    add("slice-walrus", b"x = id[w := 1]\ny = id[a:=1, b:=2]\n")
    add("slice-walrus-bad", b"x = id[w := 1 : 2]\n")
    add("slice-lambda", b"x = id[lambda: 1 : 2]\n")
    add("slice-assign-forms", b"id[:] = id\nid[1:2] = id\nid[::2] = id\ndel id[:]\nid[1:2] += id\n")
    add("slice-huge", b"x = id[-9223372036854775809:9223372036854775808:18446744073709551616]\n")
    add("slice-const-seq", b"x = 'abcdef'[1:3]\ny = (1, 2, 3)[::2]\nz = [1, 2, 3][-1]\nw = b'abc'[0]\nv = 'abc'[10:20]\nu = (1, 2)[1:2:0]\n")
    add("attr-on-literal", b"x = 1 .real\ny = 1.0.real\nz = 1..real\nw = 1j.imag\nv = 'a'.upper()\nu = b'a'.decode()\nt = (1).bit_length()\ns = [].append\nr = {}.get\nq = ().count\np = None.__class__\no = ....__class__\nn = True.real\n")
    add("attr-int-dot", b"x = 1.real\n")
    add("attr-keyword", b"x = id.None\n")
    add("attr-soft-keyword", b"x = id.match.case.type._\n")
    add("attr-private-outside", b"x = id.__x\n")
    add("num-underscore-bad", b"x = 1__0\n")
    add("num-underscore-end", b"x = 1_\n")
    add("num-underscore-start", b"x = _1\n")
    add("num-underscore-dot", b"x = 1_.0\n")
    add("num-underscore-exp", b"x = 1e_1\n")
    add("num-underscore-prefix", b"x = 0_x1\n")
    add("num-underscore-after-prefix", b"x = 0x_1\n")
    add("num-leading-zero", b"x = 01\n")
    add("num-leading-zero-float", b"x = 01.5\ny = 01e1\nz = 01j\nw = 00.0\nv = 0_0_1.0\n")
    add("num-leading-zero-under", b"x = 0_1\n")
    add("num-hex-float", b"x = 0x1.8p3\n")
    add("num-hex-empty", b"x = 0x\n")
    add("num-bin-2", b"x = 0b12\n")
    add("num-oct-8", b"x = 0o18\n")
    add("num-upper-prefix", b"x = 0XFF + 0O17 + 0B11\n")
    add("num-exp-forms", b"x = 1e1 + 1E1 + 1e+1 + 1e-1 + 1.e1 + .1e1 + 1_0e1_0 + 0e0 + 0.e0\n")
    add("num-exp-empty", b"x = 1e\n")
    add("num-exp-sign-only", b"x = 1e+\n")
    add("num-imag-forms", b"x = 1j + 1J + 1.j + .1j + 1e1j + 1_0j + 0j + 00j + 0_0j + 1.5e-3J\n")
    add("num-imag-hex", b"x = 0x1j\n")
    add("num-suffix-l", b"x = 1l\n")
    add("num-suffix-u", b"x = 1u\n")
    add("num-suffix-f", b"x = 1.0f\n")
    add("num-ident-adjacent", b"x = 1if 1else 2\n")
    add("num-ident-adjacent2", b"x = 1 if 1else 2\n")
    add("num-and", b"x = 1and 2\n")
    add("num-in", b"x = 1in (1,)\n")
    add("num-is", b"x = 1is 1\n")
    add("num-or", b"x = 0or 1\n")
    add("num-hex-or", b"x = 0xfor 1\n")
    add("num-dot-dot", b"x = 1...real\n")
    add("num-huge-exp", b"x = 1e1000000000000\ny = 1e-1000000000000\n")
    add("num-float-precision", b"x = 0.1000000000000000055511151231257827021181583404541015625\ny = 123456789012345678901234567890.123456789012345678901234567890e-30\nz = 1.7976931348623157e308\nw = 1.7976931348623159e308\nv = 4.9406564584124654e-324\nu = 2.4703282292062327e-324\n")
    add("num-int-boundaries", b"a = 2147483647\nb = 2147483648\nc = -2147483648\nd = -2147483649\ne = 4294967295\nf = 4294967296\ng = 9223372036854775807\nh = 9223372036854775808\ni = -9223372036854775808\nj = -9223372036854775809\nk = 18446744073709551615\nl = 18446744073709551616\nm = 340282366920938463463374607431768211456\n")
    add("num-int-boundaries-ops", b"a = 2147483647 + 1\nb = -2147483648 - 1\nc = 9223372036854775807 + 1\nd = -9223372036854775808 - 1\ne = 4611686018427387904 * 2\nf = -9223372036854775808 // -1\ng = -9223372036854775808 % -1\nh = abs(-9223372036854775808)\ni = -(-9223372036854775808)\nj = 1 << 63\nk = 1 << 64\nl = -1 << 63\nm = -1 >> 100\nn = 9223372036854775807 << 1\n")
    add("str-prefix-all", b"a = u'a'; b = U'a'; c = r'a'; d = R'a'; e = b'a'; f = B'a'; g = br'a'; h = Br'a'; i = bR'a'; j = BR'a'; k = rb'a'; l = rB'a'; m = Rb'a'; n = RB'a'; o = f'a'; p = F'a'; q = fr'a'; r = Fr'a'; s = fR'a'; t = FR'a'; u = rf'a'; v = rF'a'; w = Rf'a'; x = RF'a'\n")
    add("str-prefix-bad-ub", b"x = ub'a'\n")
    add("str-prefix-bad-uf", b"x = uf'a'\n")
    add("str-prefix-bad-bf", b"x = bf'a'\n")
    add("str-prefix-bad-rr", b"x = rr'a'\n")
    add("str-prefix-bad-c", b"x = c'a'\n")
    add("str-prefix-space", b"x = b 'a'\n")
    add("str-concat-mixed", b"x = 'a' b'b'\n")
    add("str-concat-f-b", b"x = f'a' b'b'\n")
    add("str-concat-u-f-r", b"x = u'a' f'{id}' r'\\d' 'b' F'{id!r}' R'\\\\'\n")
    add("str-concat-lines", b"x = ('a'\n     'b'\n     # c\n     f'{id}'\n\n     'c')\n")
    add("str-nonascii-bytes", "x = b'é'\n".encode("utf8"))
    add("str-nonascii-bytes-raw", "x = rb'é'\n".encode("utf8"))
    add("str-newline-in-single", b"x = 'a\nb'\n")
    add("str-cr-in-triple", b"x = '''a\rb\r\nc'''\n")
    add("str-tab-ff", b"x = 'a\tb\x0cc'\n")
    add("str-quote-mix", b"x = '\"' \"'\" '''\"\"\"''' \"\"\"'''\"\"\" '\\'' \"\\\"\"\n")
    add("str-triple-quote-end", b"x = ''''a'''\ny = '''a\\''''\nz = \"\"\"\"a\"\"\"\n")
    add("str-triple-four", b"x = ''''''\ny = '''''''\n")
    add("str-empty-forms", b"x = ''; y = \"\"; z = ''''''; w = \"\"\"\"\"\"; v = b''; u = f''; t = r''; s = rb''; r = '' ''; q = f'' ''\n")
    add("str-percent-forms", b"x = '%s %d %r %5.2f %% %(a)s %c %x %o %e %g %i %u %a %-5s %+d %05d %#x %*d %.*f' % id\n")
    add("str-percent-const", b"x = '%s' % 1\ny = '%d' % 'a'\nz = '%s %s' % (1,)\nw = '%' % ()\nv = '%z' % 1\nu = '%(a)s' % {'a': 1}\nt = b'%s' % b'a'\ns = b'%d' % 1\nr = '%c' % 0x110000\nq = '%s' % (1, 2)\n")
    add("str-format-forms", b"x = '{} {0} {a} {0.x} {0[0]} {!r} {:>10} {:{}} {{}} {a!s:^{b}}'.format(id)\n")
    add("str-long-line", b"x = '" + b"a" * 70000 + b"'\n")
    add("str-long-bytes", b"x = b'" + b"\\x00" * 20000 + b"'\n")
    add("str-many-backslash", b"x = '" + b"\\\\" * 20000 + b"'\n")
    add("str-many-quotes", b"x = '" + b"\\'" * 20000 + b"'\n")
    add("str-many-newlines", b"x = '''" + b"\n" * 20000 + b"'''\n")
    add("str-many-trigraph", b"x = '" + b"??/" * 5000 + b"'\n")
    add("str-many-nonascii", ("x = '" + "é€\U0001f600" * 5000 + "'\n").encode("utf8"))
    add("str-many-concat", b"x = (" + b"'a' " * 5000 + b")\n")
    add("str-many-fields", b"x = f'" + b"{id}" * 2000 + b"'\n")
    add("str-many-nul", b"x = '" + b"\\0" * 5000 + b"'\n")
    add("str-all-latin1-escapes", b"x = '" + b"".join(b"\\x%02x" % i for i in range(256)) + b"'\ny = b'" + b"".join(b"\\x%02x" % i for i in range(256)) + b"'\n")
    add("str-all-octal-escapes", b"x = '" + b"".join(b"\\%o" % i for i in range(512)) + b"'\n")
    add("str-bmp-sample", ("x = '" + "".join(chr(c) for c in range(0xa0, 0x3000, 7) if not 0xd800 <= c < 0xe000) + "'\n").encode("utf8"))
    add("str-line-sep-chars", "x = 'a\u2028b\u2029c\u0085d\x1ce\x1df\x1eg'\n".encode("utf8"))
    add("str-docstring-forms", b"'''module doc'''\ndef f():\n    \"\"\"f doc\"\"\"\nclass K:\n    'K doc'\n    def m(self):\n        r'''raw doc \\d'''\n    def n(self):\n        u'u doc'\n")
    add("str-docstring-concat", b"'a' 'b'\ndef f():\n    'a' 'b'\n")
    add("str-docstring-expr", b"'a'.upper()\n")
    add("str-docstring-expr-func", b"def f():\n    'a'.upper()\n")
    add("str-docstring-expr-class", b"class K:\n    'a' + 'b'\n")
    add("str-docstring-percent", b"'%s' % id\nx = 1\n")
    add("str-docstring-tuple", b"'a', 'b'\n")
    add("str-docstring-semicolon", b"'a'; x = 1\n")
    add("str-docstring-paren", b"('a')\ndef f():\n    ('doc')\n")
    add("str-docstring-bytes-module", b"b'a'\n")
    add("str-docstring-bytes-class", b"class K:\n    b'a'\n")
    add("str-docstring-fstring-func", b"def f():\n    f'a'\n")
    add("str-docstring-nonascii", "'é€'\ndef f():\n    'é€'\n".encode("utf8"))
    add("str-docstring-nul", b"'a\\0b'\ndef f():\n    'a\\0b'\n")
    add("str-docstring-surrogate-func", b"def f():\n    '\\ud800'\n")
    add("str-docstring-surrogate-class", b"class K:\n    '\\udfff'\n")
    add("str-docstring-long", b"'''" + b"doc line\n" * 5000 + b"'''\n")
    add("str-docstring-trigraph", b"'??/ */ /* \\\\ \"'\ndef f():\n    '*/ /* ??)'\n")
    return B


def lit_family(tier):
    """[(family, name, bytes)]: literal-focused, deeply nested and oddly laid-out texts.  Validity is decided by CPython."""
    out = []
    for fam, name, text in _esc_family() + _num_family() + _nest_family(tier):
        out.append((fam, name, text.encode("utf8", "surrogatepass") if isinstance(text, str) else text))
    out.extend(_layout_family())
    return out


# --------------------------------------------------------------------------
# P in a child process (CPython's own compiler can overflow the C stack on deeply nested input)

_P_CHILD = r'''
import sys, json, base64, warnings, ast, re
sys.setrecursionlimit(1000)
items = json.load(open(sys.argv[1]))
out = open(sys.argv[2], "a")

TYPED = (ast.Constant, ast.List, ast.Tuple, ast.Set, ast.Dict, ast.ListComp, ast.SetComp, ast.DictComp, ast.GeneratorExp,
         ast.JoinedStr, ast.Lambda)

def typed(n):
    if isinstance(n, TYPED):
        return True
    if isinstance(n, ast.UnaryOp):
        return typed(n.operand)
    if isinstance(n, ast.BinOp):
        return typed(n.left) or typed(n.right)
    if isinstance(n, ast.Compare) or isinstance(n, ast.BoolOp):
        return True
    if isinstance(n, ast.IfExp):
        return typed(n.body) or typed(n.orelse)
    if isinstance(n, ast.NamedExpr):
        return typed(n.value)
    return False

def operands(n):
    # expressions in positions where the compiler type-checks a value of known type
    if isinstance(n, ast.Call):
        yield n.func
        for a in n.args: yield a          # builtins are type-checked on literal arguments
    elif isinstance(n, (ast.Subscript, ast.Attribute, ast.Starred, ast.Await, ast.YieldFrom)):
        yield n.value
    elif isinstance(n, ast.UnaryOp):
        yield n.operand
    elif isinstance(n, ast.BinOp):
        yield n.left; yield n.right
    elif isinstance(n, ast.AugAssign):
        yield n.value
    elif isinstance(n, ast.Compare):
        yield n.left
        for c in n.comparators: yield c
    elif isinstance(n, (ast.For, ast.AsyncFor, ast.comprehension)):
        yield n.iter
    elif isinstance(n, (ast.With, ast.AsyncWith)):
        for it in n.items: yield it.context_expr
    elif isinstance(n, ast.Raise):
        if n.exc is not None: yield n.exc
        if n.cause is not None: yield n.cause
    elif isinstance(n, ast.ExceptHandler):
        if n.type is not None: yield n.type
    elif isinstance(n, (ast.FunctionDef, ast.AsyncFunctionDef, ast.ClassDef)):
        for d in n.decorator_list: yield d
        if isinstance(n, ast.ClassDef):
            for b in n.bases: yield b
    elif isinstance(n, ast.Assign) and len(n.targets) == 1 and isinstance(n.targets[0], (ast.Tuple, ast.List)):
        yield n.value                     # unpacking a value of known type / length
    elif isinstance(n, ast.AnnAssign) and n.value is not None:
        yield n.value                     # annotation typing: the value is checked against the annotation

STRTOK = re.compile(r"(?i)^(?:[rbuf]|br|rb|fr|rf)?['\"]")

def small_int(n):
    """value of a constant integer expression (None if it is not one or gets big)"""
    if isinstance(n, ast.Constant) and type(n.value) is int:
        return n.value
    if isinstance(n, ast.UnaryOp) and isinstance(n.op, ast.USub):
        v = small_int(n.operand)
        return None if v is None else -v
    if isinstance(n, ast.BinOp):
        a, b = small_int(n.left), small_int(n.right)
        if a is None or b is None or abs(a) > 1 << 64 or abs(b) > 1 << 64:
            return None
        if isinstance(n.op, ast.Add): return a + b
        if isinstance(n.op, ast.Mult): return a * b
        if isinstance(n.op, ast.Pow) and 0 <= b <= 64 and abs(a) <= 1 << 16: return a ** b
        if isinstance(n.op, ast.LShift) and 0 <= b <= 64: return a << b
    return None

def huge_const_op(n):
    """a constant operation whose result has more than ~10**7 bits / items (CPython's folder refuses those)"""
    if not isinstance(n, ast.BinOp):
        return False
    a, b = small_int(n.left), small_int(n.right)
    if isinstance(n.op, ast.LShift):
        return a is not None and b is not None and a != 0 and b > 10 ** 7
    if isinstance(n.op, ast.Pow):
        if isinstance(n.right, ast.BinOp) and isinstance(n.right.op, ast.Pow) and small_int(n.left) not in (None, 0, 1, -1):
            bb, ee = small_int(n.right.left), small_int(n.right.right)
            if bb is not None and ee is not None and abs(bb) > 1 and ee > 0 and ee * abs(bb).bit_length() > 24:
                return True
        return a is not None and b is not None and abs(a) > 1 and b * abs(a).bit_length() > 10 ** 7
    if isinstance(n.op, ast.Mult):
        for s, k in ((n.left, n.right), (n.right, n.left)):
            if isinstance(s, (ast.Constant, ast.Tuple, ast.List)) and not (isinstance(s, ast.Constant) and not isinstance(s.value, (str, bytes))):
                kk = small_int(k)
                if kk is None and isinstance(k, ast.BinOp) and isinstance(k.op, ast.Pow):
                    x, y = small_int(k.left), small_int(k.right)
                    kk = 10 ** 9 if (x is not None and y is not None and abs(x) > 1 and y * abs(x).bit_length() > 24) else None
                if kk is not None and kk > 10 ** 7:
                    return True
    return False

def ctyped(n):
    """expression whose value the compiler represents as a C number / C boolean"""
    if isinstance(n, ast.Constant):
        return type(n.value) in (int, float, bool, complex)
    if isinstance(n, ast.Compare):
        return True
    if isinstance(n, ast.UnaryOp):
        return isinstance(n.op, ast.Not) or ctyped(n.operand)
    if isinstance(n, ast.BinOp):
        return ctyped(n.left) and ctyped(n.right)
    if isinstance(n, ast.IfExp):
        return ctyped(n.body) and ctyped(n.orelse)
    return False

def contains(n, types):
    return any(isinstance(x, types) for x in ast.walk(n))

def ast_tags(tree, text, lines):
    t = set()
    parents = {}
    for n in ast.walk(tree):
        for c in ast.iter_child_nodes(n):
            parents[c] = n
    def in_function(n):
        while n in parents:
            n = parents[n]
            if isinstance(n, (ast.FunctionDef, ast.AsyncFunctionDef, ast.Lambda)):
                return n
        return None
    for n in ast.walk(tree):
        if isinstance(n, ast.TypeAlias) or getattr(n, "type_params", None):
            t.add("pep695")
        if isinstance(n, ast.Subscript):
            sl = n.slice
            parts = sl.elts if isinstance(sl, ast.Tuple) else [sl]
            if any(isinstance(p, ast.Starred) for p in parts):
                t.add("subscript-star")
            if any(isinstance(p, ast.NamedExpr) for p in parts):
                t.add("subscript-walrus")
        if isinstance(n, ast.TryStar):
            t.add("trystar")
            if in_function(n) is None:
                t.add("trystar-module")
        if isinstance(n, ast.ClassDef):
            if any(contains(b, ast.NamedExpr) for b in n.bases + [k.value for k in n.keywords]):
                t.add("classarg-walrus")
            hdr = n.decorator_list + n.bases + [k.value for k in n.keywords]
            if any(contains(d, (ast.ListComp, ast.SetComp, ast.DictComp, ast.GeneratorExp)) for d in hdr):
                t.add("classheader-comp")
            if n.bases and all(ctyped(b) for b in n.bases):
                t.add("classbases-all-c-typed")
        if isinstance(n, (ast.FunctionDef, ast.AsyncFunctionDef, ast.ClassDef)):
            if any(contains(d, ast.Await) for d in n.decorator_list):
                t.add("deco-await")
        if isinstance(n, (ast.Match,)):
            for case in n.cases:
                if any(isinstance(x, (ast.FunctionDef, ast.AsyncFunctionDef)) for b in case.body for x in ast.walk(b)):
                    t.add("def-in-match-case")
        if isinstance(n, (ast.With, ast.AsyncWith)) and any(ctyped(it.context_expr) and not (isinstance(it.context_expr, ast.Constant) and type(it.context_expr.value) is int) for it in n.items):
            t.add("with-item-c-float")
        if isinstance(n, ast.Try) and n.finalbody and any(isinstance(x, ast.AnnAssign) and not x.simple and isinstance(x.target, ast.Name)
                                                          for b in n.finalbody for x in ast.walk(b)):
            t.add("paren-annassign-in-finally")
        if isinstance(n, ast.AugAssign) and contains(n.target, ast.GeneratorExp):
            t.add("augtarget-genexp")
        if isinstance(n, (ast.Module, ast.ClassDef, ast.FunctionDef, ast.AsyncFunctionDef)) and n.body:
            kind = {"Module": "module", "ClassDef": "class"}.get(type(n).__name__, "def")
            s = n.body[0]
            is_lit = isinstance(s, ast.Expr) and (isinstance(s.value, ast.JoinedStr) or
                                                  (isinstance(s.value, ast.Constant) and isinstance(s.value.value, (str, bytes))))
            if isinstance(s, ast.Expr) and isinstance(s.value, ast.Constant) and isinstance(s.value.value, bytes):
                t.add("docpos-bytes:" + kind)
            if isinstance(s, ast.Expr) and isinstance(s.value, ast.Constant) and isinstance(s.value.value, str) and \
                    any(0xD800 <= ord(ch) <= 0xDFFF for ch in s.value.value):
                t.add("docpos-surrogate:" + kind)
            try:
                src = lines[s.lineno - 1].encode("utf8")[s.col_offset:].decode("utf8", "replace")
            except Exception:
                src = ""
            if STRTOK.match(src) and not is_lit:
                t.add("docpos-strfirst:" + kind)
            if is_lit and not isinstance(s.value, ast.JoinedStr) and len(n.body) > 1 and n.body[1].lineno == s.end_lineno:
                t.add("docpos-str-semicolon:" + kind)
        if isinstance(n, ast.GeneratorExp) and any(g.is_async for g in n.generators):
            f = in_function(n)
            if isinstance(f, ast.FunctionDef):
                t.add("async-genexp-in-def")
        if isinstance(n, (ast.FunctionDef, ast.AsyncFunctionDef, ast.Lambda)):
            a = n.args
            kwnames = set(x.arg for x in a.kwonlyargs)
            for d in a.kw_defaults:
                if d is not None and any(isinstance(x, ast.Name) and x.id in kwnames for x in ast.walk(d)):
                    t.add("kwonly-default-names-kwonly-param")
        if huge_const_op(n):
            t.add("huge-const-op")
        if isinstance(n, ast.Assign) and len(n.targets) == 1 and isinstance(n.targets[0], (ast.Tuple, ast.List)):
            v = n.value         # a chain of slicings x[a:b][c:d]...: one start that is not a constant is enough
            while isinstance(v, ast.Subscript) and isinstance(v.slice, ast.Slice):
                if v.slice.lower is not None and small_int(v.slice.lower) is None:
                    t.add("unpack-slice-nonconst-start")
                v = v.value
        if isinstance(n, (ast.For, ast.AsyncFor)) and isinstance(n.iter, (ast.Tuple, ast.List)) and n.iter.elts and \
                all(isinstance(e, ast.Constant) and isinstance(e.value, (float, complex)) and not isinstance(e.value, bool) for e in n.iter.elts) \
                and any(isinstance(e.value, complex) for e in n.iter.elts):
            t.add("for-over-complex-literals")
        if isinstance(n, ast.Call) and isinstance(n.func, ast.Attribute) and n.func.attr == "decode" and not n.args and not n.keywords \
                and isinstance(n.func.value, ast.Constant) and isinstance(n.func.value.value, bytes):
            t.add("bytes-literal-decode-noargs")
        if isinstance(n, ast.Constant) and type(n.value) is complex and n.value.imag in (float("inf"), float("-inf")):
            t.add("imag-literal-overflows-to-inf")
        if isinstance(n, ast.Constant) and type(n.value) is int and n.value.bit_length() > 14280:
            t.add("int-over-4300-digits")
            p = parents.get(n)
            if isinstance(p, ast.UnaryOp) and isinstance(p.op, ast.USub):
                t.add("negated-int-over-4300-digits")
    bs = [n.value for n in ast.walk(tree) if isinstance(n, ast.Constant) and isinstance(n.value, bytes)]
    if bs and not any(bs):
        t.add("only-empty-bytes")
    return t

def text_tags(text):
    t = set()
    if re.search(r"(?m)^[ \t]*pass[ \t]*;[ \t]*[^\s#;]", text):
        t.add("pass-semicolon-stmt")
    if re.search(r"(?<![\w.])0[0_]*_[1-9][0-9_]*[jJ]\b", text):
        t.add("imag-leading-zero-underscore")
    if re.search(r"(?m)^[ \t]*\f[ \t]+\S", text):
        t.add("formfeed-in-indentation")
    if re.search(r"(?i)(?<![\w])(?:fr|rf)(['\"])[^'\"\n]*\\\r?\n", text):
        t.add("raw-fstring-backslash-newline")
    if re.search(r"(?<![\w.])\d{4301,}", text) or re.search(r"(?i)(?<![\w.])0x[0-9a-f_]{3572,}", text) or \
            re.search(r"(?i)(?<![\w.])0b[01_]{14285,}", text) or re.search(r"(?i)(?<![\w.])0o[0-7_]{4762,}", text):
        t.add("int-over-4300-digits")
    if re.search(r"(?i)(?<![\w.])0[xob][0-9a-f_]+j\b", text):
        t.add("prefixed-int-imag")
    if re.search(r"(?m)^nonlocal\b", text):
        t.add("nonlocal-at-module-level")
    if re.search(r"(?m)^[ \t]*match\b[^\n]*:[ \t]*\n[ \t]+case\b", text):
        t.add("match-stmt")
    mc = re.search(r"\A(?:[^\n]*\n)?[ \t\f]*#.*?coding[:=][ \t]*([-\w.]+)", text)
    if mc:
        t.add("coding-cookie:" + mc.group(1).lower())
    m = re.match(r"\s*(?:#[^\n]*\n\s*)*([A-Za-z_]\w*)", text)
    if m and m.group(1) in ("print", "exec"):
        t.add("first-token-" + m.group(1))
    return t

def features(data):
    tree = ast.parse(data)
    names = set()
    typedop = False
    for n in ast.walk(tree):
        names.add(type(n).__name__)
        if not typedop:
            for o in operands(n):
                if typed(o):
                    typedop = True
                    break
    text = data.decode("utf8", "replace")
    if text.startswith("\ufeff"):
        text = text[1:]
    return typedop, sorted(names), sorted(ast_tags(tree, text, text.split("\n")) | text_tags(text))

for i, b in items:
    data = base64.b64decode(b)
    out.write(json.dumps([i, "start"]) + "\n"); out.flush()
    try:
        with warnings.catch_warnings():
            warnings.simplefilter("ignore")
            compile(data, "<c43>", "exec", dont_inherit=True)
            try:
                typedop, names, tags = features(data)
            except (RecursionError, MemoryError, ValueError, SyntaxError):
                typedop, names, tags = True, [], sorted(text_tags(data.decode("utf8", "replace")))
        v = [i, True, "", typedop, names, tags]
    except SyntaxError as e:
        v = [i, False, "SyntaxError: %s" % (e.msg,), False, [], sorted(text_tags(data.decode("utf8", "replace")))]
    except (ValueError, OverflowError, RecursionError, MemoryError, UnicodeError) as e:
        v = [i, False, "%s: %s" % (type(e).__name__, str(e)[:80]), False, [], sorted(text_tags(data.decode("utf8", "replace")))]
    out.write(json.dumps(v) + "\n"); out.flush()
'''


def cpython_verdicts(datas, workdir, tag="p"):
    """{index: (valid, reason, typed_operand, ast node names, tags)} for a list of byte strings; a text on which CPython
    itself dies counts as not compiled.  typed_operand: some operation is applied to a value whose type is known at
    compile time (literal, display, comprehension, ...) -- the compiler may type-check such code (see c43.py)."""
    import base64, json, subprocess
    os.makedirs(workdir, exist_ok=True)
    drv = os.path.join(workdir, "c43_pchild.py")
    with open(drv, "w") as f:
        f.write(_P_CHILD)
    todo = [(i, base64.b64encode(d).decode("ascii")) for i, d in enumerate(datas)]
    res = {}
    rounds = 0
    while todo:
        rounds += 1
        inf = os.path.join(workdir, "%s_in%d.json" % (tag, rounds))
        outf = os.path.join(workdir, "%s_out%d.ndjson" % (tag, rounds))
        with open(inf, "w") as f:
            json.dump(todo, f)
        if os.path.exists(outf):
            os.unlink(outf)
        try:
            subprocess.run([sys.executable, drv, inf, outf], capture_output=True, timeout=1800)
        except subprocess.TimeoutExpired:
            pass
        started = None
        if os.path.exists(outf):
            for line in open(outf):
                try:
                    v = json.loads(line)
                except ValueError:
                    continue
                if v[1] == "start":
                    started = v[0]
                else:
                    res[v[0]] = (v[1], v[2], v[3], v[4], v[5])
                    started = None
        rest = [t for t in todo if t[0] not in res]
        if not rest:
            break
        dead = started if started is not None else rest[0][0]
        res[dead] = (False, "CPython died", False, [], [])
        todo = [t for t in rest if t[0] != dead]
        if rounds > 50:
            raise RuntimeError("CPython oracle child keeps dying")
    return res


# --------------------------------------------------------------------------
# corpus: the interpreter's own library as ready-made valid Python

def stdlib_dir():
    import sysconfig
    return sysconfig.get_paths()["stdlib"]

SYNTAX_TESTS = ["test_grammar", "test_syntax", "test_fstring", "test_patma", "test_named_expressions", "test_unpack_ex",
                "test_positional_only_arg", "test_string_literals", "test_keywordonlyarg", "test_genexps", "test_decorators",
                "test_with", "test_except_star", "test_type_params", "test_type_aliases", "test_unicode_identifiers", "test_scope",
                "test_global", "test_generators", "test_coroutines", "test_asyncgen", "test_class", "test_augassign", "test_long",
                "test_float", "test_compile", "test_dictcomps", "test_setcomps", "test_pep646_syntax", "test_listcomps",
                "test_exceptions", "test_raise", "test_opcodes", "test_unary", "test_binop", "test_bool", "test_contains",
                "test_slice", "test_int_literal", "test_complex", "test_tokenize", "test_ast", "test_dis", "test_inspect"]


def corpus_files():
    lib = stdlib_dir()
    files = sorted(glob.glob(os.path.join(lib, "*.py")))
    for e in SYNTAX_TESTS:
        for p in (os.path.join(lib, "test", e + ".py"), os.path.join(lib, "test", e, "__init__.py")):
            if os.path.exists(p):
                files.append(p)
    return lib, files
