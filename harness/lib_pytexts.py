"""C43 helpers: rendering of token sequences published by spec/PyGrammar.tla (and of their mutations
from spec/Mutate.tla) as source bytes, CPython's verdict on a text (the independent oracle P), the
harness-side literal / nesting / encoding families, and the stdlib corpus."""
import ast
import glob
import os
import random
import re
import sys
import warnings

# lexemes that the grammar names but that are awkward inside a TLA+ string
SPECIAL = {
    "<INT40>": "1234567890" * 4,
    "<INT4000>": "1234567890" * 400,
    "<HEX5000>": "0x" + "9aBcDeF012" * 500,
    "<FLOAT400>": "1" + "0" * 400 + ".0",
    "<FLOATFRAC400>": "0." + "0" * 400 + "1",
    "<STR_EURO>": "'€é'",
    "<STR_ASTRAL>": "'\U0001f600'",
    "<STR_LATIN1>": "'éÿ'",
    "<RSTR_EURO>": "r'\\€'",
    "<STR_LONG>": "'" + "abcdefghij" * 2000 + "'",
    "<BYTES_LONG>": "b'" + "ab\\x00\\n" * 1500 + "'",
    "<STR_MANYESC>": "'" + "\\\\" * 600 + "\\'" * 300 + "\\x41\\101\\n" * 200 + "'",
    "<STR_TRIGRAPH>": "'??/ ??= ??( */ /* //'",
    "<STR_NL_ESC>": "'a\\\n\\\nb'",
    "<ID_UNI>": "été",
    "<ID_NFKC>": "ﬁx",          # LATIN SMALL LIGATURE FI: the identifier is `fix` after NFKC
    "<ID_LONG>": "v" + "x" * 3000,
    "<COOKIE_UTF8>": "# -*- coding: utf-8 -*-",
}
INDENTS = {"INDENT": "    ", "INDENTTAB": "\t", "INDENT1": " "}


def render(toks):
    """token sequence -> source bytes.  Tokens are separated by one space; NL ends a line, NLJ is a
    bare newline (blank line / newline inside brackets), BSNL a backslash continuation; INDENT* push an
    indentation string that is written at the start of every following line, DEDENT pops one
    (an unmatched DEDENT of a mutated sequence is ignored, a duplicated INDENT indents twice)."""
    stack = []
    out = []
    line = []
    flags = set()

    def flush(end):
        if line:
            out.append("".join(stack) + " ".join(line).replace("\f ", "\f") + end)
        else:
            out.append(end)
        del line[:]

    for t in toks:
        if t == "NL":
            flush("\n")
        elif t == "NLJ":
            flush("\n")
        elif t == "BSNL":
            line.append("\\")
            flush("\n")
        elif t in INDENTS:
            stack.append(INDENTS[t])
        elif t == "DEDENT":
            if stack:
                stack.pop()
        elif t == "NOEOL":
            flags.add("noeol")
        elif t == "<FF>":
            line.append("\f")
        elif t == "<CRLF>":
            flags.add("crlf")
        elif t == "<BOM>":
            flags.add("bom")
        else:
            line.append(SPECIAL.get(t, t))
    if line:
        flush("")
    text = "".join(out)
    if "noeol" in flags and text.endswith("\n"):
        text = text[:-1]
    if "crlf" in flags:
        text = text.replace("\n", "\r\n")
    data = text.encode("utf8", "surrogatepass")
    if "bom" in flags:
        data = b"\xef\xbb\xbf" + data
    return data


def cpython_verdict(data, name="<c43>"):
    """(valid, reason): does CPython compile the text?  Warnings are not errors."""
    try:
        with warnings.catch_warnings():
            warnings.simplefilter("ignore")
            compile(data, name, "exec", dont_inherit=True)
        return True, ""
    except SyntaxError as e:
        return False, "SyntaxError: %s" % (e.msg,)
    except (ValueError, OverflowError, RecursionError, MemoryError, UnicodeError) as e:
        return False, "%s: %s" % (type(e).__name__, str(e)[:80])
