"""C25 helpers: leaf table of spec/Signature.tla, spec tree -> Python ast, semantic normal form,
source generation for the replay modules, the observer that runs in child processes."""
import ast
import json

# ---------------------------------------------------------------------------------------------
# leaf ids of the specification -> source text (the specification treats leaves as opaque atoms)
NAMES = {"K": "K", "L": "L", "M": "M"}
NUMS = {
    "i0": "0", "i1": "1", "ibig": "123456789012345678901234567890", "ihex": "0x1F", "ibin": "0b101",
    "ioct": "0o17", "iund": "1_000", "f15": "1.5", "fexp": "1e100", "fEneg": "1E-5", "fdot5": ".5",
    "f5dot": "5.", "finf": "1e999", "fund": "1_0.2_5", "j2": "2j", "j15": "1.5J",
}
ATOMS = {
    "s_a": "'a'", "s_esc": r"'a\\b\n\t\x00\x7f'", "s_quotes": r"""'it\'s "q"'""", "s_uni": r"'éሴ\U0001F600'",
    "s_raw": r"r'\d+\n'", "s_cat": "'ab' \"cd\"", "s_triple": '"""t"q"""', "s_empty": "''", "s_nl": r"'\n'",
    "b_a": "b'a'", "b_esc": r"b'\x00\xff\\\n'", "b_quotes": r"""b'\'"'""",
    "None": "None", "True": "True", "False": "False", "Ellipsis": "...",
    "e_tuple": "()", "e_list": "[]", "e_dict": "{}", "e_setcall": "set()",
}
OPQS = {"lambda": "lambda: K", "walrus": "W := 1", "fstring": "f'x{K}y'"}
LEAF_TEXT = {}
for _d in (NAMES, NUMS, ATOMS, OPQS):
    LEAF_TEXT.update(_d)


class Unknown(Exception):
    pass


def token_text(tok):
    """One token of the specification's printers as source text."""
    return LEAF_TEXT.get(tok, tok)


def tokens_to_source(toks):
    out = []
    for t in toks:
        if t == ".real" and out:
            out[-1] = out[-1] + " .real"      # "1 .real" is valid, "1.real" is not a token sequence
        else:
            out.append(token_text(t))
    return " ".join(out)


# ---------------------------------------------------------------------------------------------
# spec tree (JSON: {"k":..,"v":[..],"c":[..]}) -> Python ast, without going through any text

UN = {"-": ast.USub, "+": ast.UAdd, "~": ast.Invert, "not": ast.Not}
BIN = {"|": ast.BitOr, "^": ast.BitXor, "&": ast.BitAnd, "<<": ast.LShift, ">>": ast.RShift, "+": ast.Add, "-": ast.Sub,
       "*": ast.Mult, "/": ast.Div, "//": ast.FloorDiv, "%": ast.Mod, "@": ast.MatMult, "**": ast.Pow}
CMP = {"<": ast.Lt, "<=": ast.LtE, ">": ast.Gt, ">=": ast.GtE, "==": ast.Eq, "!=": ast.NotEq, "in": ast.In,
       "not in": ast.NotIn, "is": ast.Is, "is not": ast.IsNot}
BOOL = {"and": ast.And, "or": ast.Or}


def _leaf_ast(text):
    return ast.parse("(" + text + ")", mode="eval").body


def node2ast(e):
    k, v, c = e["k"], e["v"], e["c"]
    L = ast.Load()
    if k in ("name", "num", "atom", "opq"):
        if v[0] not in LEAF_TEXT:
            raise Unknown("leaf id %r" % v[0])
        return _leaf_ast(LEAF_TEXT[v[0]])
    if k == "un":
        return ast.UnaryOp(op=UN[v[0]](), operand=node2ast(c[0]))
    if k == "bin":
        return ast.BinOp(left=node2ast(c[0]), op=BIN[v[0]](), right=node2ast(c[1]))
    if k == "bool":
        # Python's parser collects a left-nested run of one operator into one BoolOp
        left = node2ast(c[0])
        vals = list(left.values) if (c[0]["k"] == "bool" and c[0]["v"][0] == v[0]) else [left]
        return ast.BoolOp(op=BOOL[v[0]](), values=vals + [node2ast(c[1])])
    if k == "cmp":
        return ast.Compare(left=node2ast(c[0]), ops=[CMP[o]() for o in v], comparators=[node2ast(x) for x in c[1:]])
    if k == "cond":
        return ast.IfExp(test=node2ast(c[1]), body=node2ast(c[0]), orelse=node2ast(c[2]))
    if k == "tuple":
        return ast.Tuple(elts=[node2ast(x) for x in c], ctx=L)
    if k == "list":
        return ast.List(elts=[node2ast(x) for x in c], ctx=L)
    if k == "set":
        return ast.Set(elts=[node2ast(x) for x in c])
    if k == "dict":
        return ast.Dict(keys=[node2ast(x["c"][0]) for x in c], values=[node2ast(x["c"][1]) for x in c])
    if k == "attr":
        return ast.Attribute(value=node2ast(c[0]), attr=v[0], ctx=L)
    if k == "sub":
        idx = c[1]
        if idx["k"] == "slice":
            parts = [None if x["k"] == "absent" else node2ast(x) for x in idx["c"]]
            sl = ast.Slice(lower=parts[0], upper=parts[1], step=parts[2])
        else:
            sl = node2ast(idx)
        return ast.Subscript(value=node2ast(c[0]), slice=sl, ctx=L)
    if k == "call":
        args, kws = [], []
        for x in c[1:]:
            if x["k"] == "star":
                args.append(ast.Starred(value=node2ast(x["c"][0]), ctx=L))
            elif x["k"] == "dstar":
                kws.append(ast.keyword(arg=None, value=node2ast(x["c"][0])))
            elif x["k"] == "kw":
                kws.append(ast.keyword(arg=x["v"][0], value=node2ast(x["c"][0])))
            else:
                args.append(node2ast(x))
        return ast.Call(func=node2ast(c[0]), args=args, keywords=kws)
    raise Unknown("node kind %r" % k)


def ast_key(n):
    return ast.dump(n)


# ---------------------------------------------------------------------------------------------
# semantic normal form of an expression: two expressions with the same normal form have the same value in
# every environment.  Closed operator sub-expressions are evaluated, `and`/`or` are flattened (associative),
# constant left operands of and/or and constant conditions are resolved, `not (a in b)` is `a not in b`.

_SIMPLE = (int, float, complex, str, bytes, bool, type(None), type(Ellipsis))
_NEG = {ast.In: ast.NotIn, ast.NotIn: ast.In, ast.Is: ast.IsNot, ast.IsNot: ast.Is}


_FOLD_ELLIPSIS = [False]


def _is_const(n):
    # in a printed text `...` may be the placeholder: it is folded only on request
    return isinstance(n, ast.Constant) and (n.value is not Ellipsis or _FOLD_ELLIPSIS[0])


def _closed(n):
    if isinstance(n, (ast.Tuple, ast.List, ast.Set)):
        return all(_closed(x) for x in n.elts)
    if isinstance(n, ast.Dict):
        return all(k is not None and _closed(k) for k in n.keys) and all(_closed(v) for v in n.values)
    return _is_const(n)


def _truth(n):
    """True / False if the truth value of n is known and evaluating n has no effect, else None"""
    if _is_const(n):
        return bool(n.value)
    if isinstance(n, (ast.Tuple, ast.List, ast.Set, ast.Dict)) and _closed(n):
        return bool(n.elts if not isinstance(n, ast.Dict) else n.keys)
    return None


def _try_eval(n):
    try:
        v = eval(compile(ast.fix_missing_locations(ast.Expression(body=n)), "<norm>", "eval"), {"__builtins__": {}}, {})
    except Exception:
        return n
    if type(v) in _SIMPLE:
        return ast.Constant(value=v)
    return n


class _Norm(ast.NodeTransformer):
    def visit_UnaryOp(self, n):
        self.generic_visit(n)
        if isinstance(n.op, ast.Not) and isinstance(n.operand, ast.Compare) and len(n.operand.ops) == 1 \
                and type(n.operand.ops[0]) in _NEG:
            c = n.operand
            return ast.Compare(left=c.left, ops=[_NEG[type(c.ops[0])]()], comparators=c.comparators)
        if _is_const(n.operand):
            return _try_eval(n)
        if isinstance(n.op, ast.Not) and _truth(n.operand) is not None:
            return ast.Constant(value=not _truth(n.operand))
        return n

    def visit_Attribute(self, n):
        # an attribute of a literal ((1).real): the compiler evaluates it when it folds constants
        self.generic_visit(n)
        if _is_const(n.value) and n.value.value is not Ellipsis:
            return _try_eval(n)
        return n

    def visit_BinOp(self, n):
        self.generic_visit(n)
        if _is_const(n.left) and _is_const(n.right):
            return _try_eval(n)
        return n

    def visit_Compare(self, n):
        self.generic_visit(n)
        if _closed(n.left) and all(_closed(x) for x in n.comparators):
            return _try_eval(n)
        return n

    def visit_IfExp(self, n):
        self.generic_visit(n)
        t = _truth(n.test)
        if t is not None:
            return n.body if t else n.orelse
        return n

    def visit_BoolOp(self, n):
        self.generic_visit(n)
        vals = []
        for x in n.values:
            if isinstance(x, ast.BoolOp) and type(x.op) is type(n.op):
                vals.extend(x.values)
            else:
                vals.append(x)
        is_and = isinstance(n.op, ast.And)
        out = []
        for i, x in enumerate(vals):
            last = i == len(vals) - 1
            t = _truth(x)
            if t is not None:
                decides = (not t) if is_and else t
                if decides:
                    out.append(x)
                    break
                if not last:
                    continue          # a constant that never decides and is not the result
            out.append(x)
        if len(out) == 1:
            return out[0]
        return ast.BoolOp(op=n.op, values=out)


def norm(n, fold_ellipsis=False):
    import copy
    _FOLD_ELLIPSIS[0] = fold_ellipsis
    try:
        return _Norm().visit(copy.deepcopy(n))
    finally:
        _FOLD_ELLIPSIS[0] = False


OPQ_TEXTS = None


def _opq_dumps():
    global OPQ_TEXTS
    if OPQ_TEXTS is None:
        OPQ_TEXTS = {ast.dump(_leaf_ast(t)) for t in OPQS.values()}
    return OPQ_TEXTS


def _has_ellipsis(n):
    return any(isinstance(x, ast.Constant) and x.value is Ellipsis for x in ast.walk(n))


def sem_equal(s, c):
    """s: normal form of the specification's tree (not printable leaves still in it), c: normal form of the text
    the implementation printed.  A not printable leaf matches any expression that carries the placeholder `...`."""
    if isinstance(s, ast.AST) and ast.dump(s) in _opq_dumps():
        return isinstance(c, ast.AST) and _has_ellipsis(c)
    if isinstance(s, ast.AST):
        if type(s) is not type(c):
            return False
        if isinstance(s, ast.Constant):
            return type(s.value) is type(c.value) and repr(s.value) == repr(c.value)
        for f in s._fields:
            if f in ("ctx", "kind", "type_comment"):
                continue
            if not sem_equal(getattr(s, f, None), getattr(c, f, None)):
                return False
        return True
    if isinstance(s, list):
        return isinstance(c, list) and len(s) == len(c) and all(sem_equal(a, b) for a, b in zip(s, c))
    return s == c


# ---------------------------------------------------------------------------------------------
# symbolic operands: every operator works and the value tells which operations were applied in which order

SYMH = r'''
def _r(o):
    """repr without addresses"""
    if type(o).__name__ in ("function", "cython_function_or_method"):
        try: return "<lambda->%s>" % _r(o())
        except Exception as e: return "<lambda raises %s>" % type(e).__name__
    if type(o) is tuple: return "(%s)" % "".join(_r(x) + "," for x in o)
    if type(o) is list: return "[%s]" % ",".join(_r(x) for x in o)
    if type(o) is dict: return "{%s}" % ",".join(_r(k) + ":" + _r(v) for k, v in o.items())
    if type(o) is slice: return "slice(%s,%s,%s)" % (_r(o.start), _r(o.stop), _r(o.step))
    return repr(o)
class Sym(object):
    def __init__(self, s, truth=True): self.s = s; self.truth = truth
    def __repr__(self): return self.s
    def __bool__(self): return self.truth
    def __hash__(self): return hash(self.s)
    def __getattr__(self, n):
        if n.startswith('__'): raise AttributeError(n)
        return Sym("(%s.%s)" % (self.s, n))
    def __getitem__(self, i): return Sym("(%s[%s])" % (self.s, _r(i)))
    def __call__(self, *a, **k): return Sym("(%s(%s,%s))" % (self.s, _r(a), _r(sorted(k.items()))))
    def __iter__(self): return iter((1, 2))
    def keys(self): return ['kk']
    def __contains__(self, x): return True
def _b(name, sym):
    def f(self, o): return Sym("(%s %s %s)" % (_r(self), sym, _r(o)))
    def r(self, o): return Sym("(%s %s %s)" % (_r(o), sym, _r(self)))
    setattr(Sym, "__%s__" % name, f); setattr(Sym, "__r%s__" % name, r)
for _n, _s in [("add", "+"), ("sub", "-"), ("mul", "*"), ("matmul", "@"), ("truediv", "/"), ("floordiv", "//"), ("mod", "%"),
               ("pow", "**"), ("lshift", "<<"), ("rshift", ">>"), ("and", "&"), ("or", "|"), ("xor", "^")]:
    _b(_n, _s)
for _n, _s in [("lt", "<"), ("le", "<="), ("gt", ">"), ("ge", ">=")]:
    setattr(Sym, "__%s__" % _n, (lambda s: lambda self, o: Sym("(%s %s %s)" % (_r(self), s, _r(o))))(_s))
# == / != are each other's negation and agree with identity (what `in` and its compiled forms rely on)
Sym.__eq__ = lambda self, o: Sym("(%s == %s)" % (_r(self), _r(o)), o is self)
Sym.__ne__ = lambda self, o: Sym("(%s != %s)" % (_r(self), _r(o)), o is not self)
for _n, _s in [("neg", "-"), ("pos", "+"), ("invert", "~")]:
    setattr(Sym, "__%s__" % _n, (lambda s: lambda self: Sym("(%s%r)" % (s, self)))(_s))
K, L, M = Sym("K"), Sym("L"), Sym("M")

def canon(v, depth=0):
    """A JSON-able image of a default value (no addresses)."""
    if isinstance(v, Sym): return ["sym", v.s, v.truth]
    t = type(v).__name__
    if depth < 4:
        if type(v) in (tuple, list): return [t, [canon(x, depth + 1) for x in v]]
        if type(v) in (set, frozenset): return [t, sorted((canon(x, depth + 1) for x in v), key=repr)]
        if type(v) is dict: return [t, [[canon(a, depth + 1), canon(b, depth + 1)] for a, b in v.items()]]
    if type(v).__name__ in ("function", "cython_function_or_method"):
        try: return ["lambda", canon(v(), depth + 1)]
        except Exception as e: return ["lambda", "raises " + type(e).__name__]
    return [t, repr(v)]
'''

# the observer: argv = module name, JSON file with the accessors; prints one record per function
OBSERVER = r'''
import sys, json, inspect, importlib
modname, accfile, want_ext = sys.argv[1], sys.argv[2], sys.argv[3] == "1"
import symh
mod = importlib.import_module(modname)
if want_ext and not mod.__file__.endswith(".so"):
    print("@@" + json.dumps({"fatal": "not an extension: %s" % mod.__file__})); sys.exit(3)
if not want_ext and not mod.__file__.endswith(".py"):
    print("@@" + json.dumps({"fatal": "not python source: %s" % mod.__file__})); sys.exit(3)
acc = json.load(open(accfile))
KIND = {inspect.Parameter.POSITIONAL_ONLY: "po", inspect.Parameter.POSITIONAL_OR_KEYWORD: "pk",
        inspect.Parameter.VAR_POSITIONAL: "va", inspect.Parameter.KEYWORD_ONLY: "ko", inspect.Parameter.VAR_KEYWORD: "vk"}
for a in acc:
    rec = {"id": a["id"]}
    try:
        obj = mod
        for step in a["path"]:
            obj = getattr(obj, step[1]) if step[0] == "attr" else obj()
        rec["type"] = type(obj).__name__
        for at in ("__name__", "__qualname__", "__module__", "__doc__", "__text_signature__"):
            try:
                val = getattr(obj, at)
                rec[at] = val if (val is None or isinstance(val, str)) else repr(val)
            except Exception as e:
                rec[at] = "E:" + type(e).__name__
        try:
            sg = inspect.signature(obj)
            rec["sig"] = [[p.name, KIND[p.kind], None if p.default is inspect.Parameter.empty else symh.canon(p.default)]
                          for p in sg.parameters.values()]
        except Exception as e:
            rec["sig"] = "E:" + type(e).__name__ + ":" + str(e)[:200]
    except Exception as e:
        rec["error"] = type(e).__name__ + ":" + str(e)[:300]
    sys.stdout.write("@@" + json.dumps(rec) + "\n")
sys.stdout.flush()
'''


def eval_default(e_ast, ns):
    """S: the value of the specification's tree, by CPython's evaluator, as the canonical image."""
    code = compile(ast.fix_missing_locations(ast.Expression(body=e_ast)), "<spec-tree>", "eval")
    return ns["canon"](eval(code, ns))


def sym_namespace():
    ns = {}
    exec(SYMH, ns)
    return ns


# ---------------------------------------------------------------------------------------------
# module generation

DOCS = [None, "simple doc", "First line.\n\n        indented body\n          more\n        back\n    ",
        "uni é ሴ \"q\" 'a' \\n back\\slash", "m(fake, sig=1)\n\nnot a signature"]


def doc_literal(d):
    return None if d is None else repr(d)


class Gen(object):
    """Collects functions (each with its accessor path) into one module source (.pyx text; the CPython twin is the
    same text with `cdef class` -> `class`)."""

    def __init__(self, header_extra=""):
        self.lines = ["# cython: language_level=3", "from symh import K, L, M", header_extra, ""]
        self.acc = []

    def add(self, fid, lines, path):
        self.lines.extend(lines)
        self.lines.append("")
        self.acc.append({"id": fid, "path": path})

    def pyx(self):
        return "\n".join(self.lines) + "\n"

    def py(self):
        return self.pyx().replace("cdef class ", "class ")


def render_params(plist):
    """plist: [(name, kind, default_text or None)] in order -> parameter list text."""
    out = []
    kinds = [k for _, k, _ in plist]
    n_po = sum(1 for k in kinds if k == "po")
    seen_star = False
    for i, (name, kind, d) in enumerate(plist):
        if kind == "va":
            out.append("*" + name)
            seen_star = True
            continue
        if kind == "vk":
            out.append("**" + name)
            continue
        if kind == "ko" and not seen_star:
            out.append("*")
            seen_star = True
        out.append(name if d is None else "%s=%s" % (name, d))
        if kind == "po" and sum(1 for k in kinds[:i + 1] if k == "po") == n_po:
            out.append("/")
    return ", ".join(out)


def split_embedded(sigline, names):
    """Split the embedded signature text into the default texts of the given parameter names
    (names are unique tokens of the form q<k>_ that cannot occur inside a default)."""
    import re
    lp = sigline.find("(")
    if lp < 0 or not sigline.rstrip().endswith(")"):
        return None
    inner = sigline[lp + 1:sigline.rstrip().rfind(")")]
    pos = []
    for nm in names:
        m = re.search(r"(?:^|, )(?:/, )?(?:\*, )?%s=" % re.escape(nm), inner)
        if not m:
            return None
        pos.append((m.start(), m.end()))
    out = {}
    for i, nm in enumerate(names):
        end = pos[i + 1][0] if i + 1 < len(names) else len(inner)
        out[nm] = inner[pos[i][1]:end]
    return out


def parse_sig_text(text):
    """'name(params)' (no return annotation) -> [(name, kind, default ast or None)] or raises SyntaxError."""
    lp = text.find("(")
    inner = text[lp + 1:text.rstrip().rfind(")")]
    inner = inner.replace("$self", "self").replace("$type", "type_")
    fn = ast.parse("def _f(%s): pass" % inner).body[0]
    a = fn.args
    res = []
    npos = len(a.posonlyargs) + len(a.args)
    dpos = [None] * (npos - len(a.defaults)) + list(a.defaults)
    for i, x in enumerate(a.posonlyargs + a.args):
        res.append((x.arg, "po" if i < len(a.posonlyargs) else "pk", dpos[i]))
    if a.vararg:
        res.append((a.vararg.arg, "va", None))
    for x, d in zip(a.kwonlyargs, a.kw_defaults):
        res.append((x.arg, "ko", d))
    if a.kwarg:
        res.append((a.kwarg.arg, "vk", None))
    return res


# ---------------------------------------------------------------------------------------------
# record validation: the real compiler front end up to (and including) EmbedSignature, no code generation.
# argv: .pyx path, JSON of directives, output JSON ({function name: docstring after EmbedSignature})
FRONTEND = r'''
import sys, json
import Cython
assert Cython.__file__.endswith(".py"), Cython.__file__
from Cython.Compiler import Pipeline, Main
from Cython.Compiler.AutoDocTransforms import EmbedSignature
from Cython.Compiler.Visitor import TreeVisitor
path, directives, outf = sys.argv[1], json.loads(sys.argv[2]), sys.argv[3]
docs = {}

class Collect(TreeVisitor):
    def visit_Node(self, node):
        self.visitchildren(node)
    def visit_DefNode(self, node):
        d = node.entry.doc
        docs[str(node.name)] = None if d is None else str(d)

orig = Pipeline.create_pyx_pipeline
def truncated(context, options, result, *a, **k):
    p = orig(context, options, result, *a, **k)
    idx = max(i for i, s in enumerate(p) if isinstance(s, EmbedSignature))
    def collect(tree):
        Collect().visit(tree)
        return tree
    return p[:idx + 1] + [collect]
Pipeline.create_pyx_pipeline = truncated
opts = Main.CompilationOptions(Main.default_options, compiler_directives=directives, language_level=3)
res = Main.compile(path, opts)
with open(outf, "w") as f:
    json.dump({"docs": docs, "errors": getattr(res, "num_errors", None)}, f)
'''
