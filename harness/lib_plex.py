"""Helpers for C50 (Plex lexer engine): the independent oracle P (Python `re` on the
event stream), the driver of the real Cython.Plex code (C), and the comparison.

Used by harness/checks/c50.py in-process (P, comparison) and as a child script
(`python lib_plex.py real <jobfile> <outfile>` with the snapshot on PYTHONPATH; `python
lib_plex.py oracle <jobfile> <outfile>` without).

Spec-side conventions (spec/Plex.tla): characters "a" "b" "c" and "n" = newline; a regular
expression is {"op", "s": [chars], "xs": [sub-expressions]}; an expected stream is
  toks = [[rule, start_offset, end_offset, line, col], ...]
  end  = {"k": "eof" | "error" | "stuck" | "eofc", "line", "col"}
    eof   : read() returns (None, '') at (line, col)
    error : UnrecognizedInput, the scan started at (line, col)
    stuck : the last token consumed nothing; the scanner returns it again and again
    eofc  : the last token consumed the end-of-file symbol; nothing is demanded after it
"""
import json
import re
import sys


def ch(c):
    return "\n" if c == "n" else c


def real_text(s):
    return s.replace("n", "\n")


# --------------------------------------------------------------------------
# P: an independent matcher.  The event stream is written as a string over
#   a b c  n(ewline)  <(bol)  >(eol)  $(eof)
# and a rule is translated to a Python regular expression in which the pseudo-symbols are
# transparent unless named: `<?` in front of every character / newline / Eol item, `>?` in
# front of a newline.

def events_str(s):
    """s: spec-side text ('n' = newline) -> (event string, offset before each event + final)"""
    ev = ["<"]
    off = [0]
    k = 0
    for c in s:
        if c == "n":
            ev += [">", "n", "<"]
            off += [k, k, k + 1]
        else:
            ev.append(c)
            off.append(k)
        k += 1
    ev += [">", "$"]
    off += [k, k, k]          # eol, eof, and the position after everything
    return "".join(ev), off


def _cls(chars):
    cs = sorted(set(chars))
    nonl = [c for c in cs if c != "n"]
    alts = []
    if nonl:
        alts.append("[%s]" % "".join(nonl))
    if "n" in cs:
        alts.append(">?n")
    if not alts:
        return "(?!)"
    return "(?:<?(?:%s))" % "|".join(alts)


ALPHA = "abcn"
ORD = {"n": 10, "a": 97, "b": 98, "c": 99}


def to_pyre(x):
    op, s, xs = x["op"], x["s"], x["xs"]
    if op == "str":
        return "".join(_cls([c]) for c in s)
    if op == "any":
        return _cls(s)
    if op == "anybut":
        return _cls([c for c in ALPHA if c not in s])
    if op == "range":
        return _cls([c for c in ALPHA if ORD[s[0]] <= ORD[c] <= ORD[s[1]]])
    if op == "bol":
        return "<"
    if op == "eol":
        return "(?:<?>)"
    if op == "eof":
        return r"\$"
    if op == "empty":
        return "(?:)"
    if op == "seq":
        return "(?:%s)" % "".join(to_pyre(y) for y in xs)
    if op == "alt":
        return "(?:%s)" % "|".join(to_pyre(y) for y in xs)
    if op == "opt":
        return "(?:%s)?" % to_pyre(xs[0])
    if op == "rep":
        return "(?:%s)*" % to_pyre(xs[0])
    if op == "rep1":
        return "(?:%s)+" % to_pyre(xs[0])
    raise ValueError(op)


def text_pos(t, a):
    """(line, col) of offset a in the real text t, the way every editor counts"""
    return 1 + t.count("\n", 0, a), a - (t.rfind("\n", 0, a) + 1)


def oracle_scan(pats, s):
    """pats: compiled patterns in rule order; s: spec-side text.  -> (toks, end)"""
    ev, off = events_str(s)
    t = real_text(s)
    n = len(ev)
    p = 0
    toks = []
    while True:
        best_q, best_r = -1, 0
        for r, pat in enumerate(pats):
            # only a strictly longer match replaces the best so far: equal length keeps the earlier rule
            for q in range(n, max(best_q, p - 1), -1):
                if pat.fullmatch(ev, p, q):
                    best_q, best_r = q, r + 1
                    break
        line, col = text_pos(t, off[p])
        if best_q < 0:
            return toks, {"k": "eof" if off[p] == len(t) else "error", "line": line, "col": col}
        toks.append([best_r, off[p], off[best_q], line, col])
        if best_q == p:
            return toks, {"k": "stuck", "line": 0, "col": 0}
        if ev[best_q - 1] == "$":
            return toks, {"k": "eofc", "line": 0, "col": 0}
        p = best_q


def oracle_job(job):
    """-> list of drift records for one lexicon"""
    pats = [re.compile(to_pyre(x)) for x in job["rules"]]
    out = []
    for case in job["cases"]:
        s, toks, end = case[0], case[1], case[2]
        ptoks, pend = oracle_scan(pats, s)
        if ptoks != toks or pend != end:
            out.append({"l": job["l"], "rules": job["rules"], "s": s, "spec": [toks, end], "oracle": [ptoks, pend]})
    return out


# --------------------------------------------------------------------------
# C: the real engine

class Chunked(object):
    """a stream that hands out the text in pieces (exercises the scanner's buffer management)"""

    def __init__(self, text, size):
        self.text, self.size, self.i = text, size, 0

    def read(self, n=-1):
        r = self.text[self.i:self.i + self.size]
        self.i += len(r)
        return r


def build_re(Plex, x):
    op, s, xs = x["op"], x["s"], x["xs"]
    if op == "str":
        return Plex.Str("".join(ch(c) for c in s))
    if op == "any":
        return Plex.Any("".join(ch(c) for c in s))
    if op == "anybut":
        return Plex.AnyBut("".join(ch(c) for c in s))
    if op == "range":
        return Plex.Range(ch(s[0]), ch(s[1]))
    if op == "bol":
        return Plex.Bol
    if op == "eol":
        return Plex.Eol
    if op == "eof":
        return Plex.Eof
    if op == "empty":
        return Plex.Empty
    if op == "seq":
        return Plex.Seq(*[build_re(Plex, y) for y in xs])
    if op == "alt":
        return Plex.Alt(*[build_re(Plex, y) for y in xs])
    if op == "opt":
        return Plex.Opt(build_re(Plex, xs[0]))
    if op == "rep":
        return Plex.Rep(build_re(Plex, xs[0]))
    if op == "rep1":
        return Plex.Rep1(build_re(Plex, xs[0]))
    raise ValueError(op)


def real_scan(Plex, lexicon, text, mode, ntok, after):
    """Read `ntok` tokens (+ what `after` asks for) from the real scanner.
    -> (tokens [[value, text, line, col]], end observation dict)"""
    from io import StringIO
    stream = StringIO(text) if mode == "whole" else Chunked(text, 1 if mode == "chunk1" else 2)
    sc = Plex.Scanner(lexicon, stream, "t")
    toks = []
    limit = ntok + (2 if after == "stuck" else 0 if after == "eofc" else 1)
    for _ in range(limit):
        try:
            value, tx = sc.read()
        except Plex.Errors.UnrecognizedInput:
            pos = sc.get_current_scan_pos()
            return toks, {"k": "error", "line": pos[1], "col": pos[2]}
        except Exception as ex:      # anything else is an observation, not a harness failure
            return toks, {"k": "exception", "type": type(ex).__name__, "msg": str(ex)[:200]}
        pos = sc.position()
        if value is None:
            return toks, {"k": "eof", "line": pos[1], "col": pos[2], "text": tx}
        toks.append([value, tx, pos[1], pos[2]])
    return toks, {"k": "more"}


def judge(s, toks, end, gtoks, gend):
    """Compare the real observation with the expectation; -> None or (obs_class, what)"""
    t = real_text(s)
    want = [[r, t[a:b], line, col] for r, a, b, line, col in toks]
    n = len(want)
    k = end["k"]
    for i in range(min(n, len(gtoks))):
        if gtoks[i] != want[i]:
            w, g = want[i], gtoks[i]
            cls = "wrong-rule" if g[0] != w[0] and g[1] == w[1] else "wrong-length" if g[1] != w[1] else "wrong-position"
            return cls, {"token": i, "want": w, "got": g}
    if len(gtoks) < n:
        if gend["k"] == "error":
            return "error-instead-of-token", {"token": len(gtoks), "want": want[len(gtoks)], "got": gend}
        if gend["k"] == "eof":
            return "eof-instead-of-token", {"token": len(gtoks), "want": want[len(gtoks)], "got": gend}
        return "exception" if gend["k"] == "exception" else "missing-token", {"token": len(gtoks), "want": want[len(gtoks)], "got": gend}
    extra = gtoks[n:]
    if k == "eofc":
        return None
    if k == "stuck":
        if len(extra) == 2 and extra[0] == want[-1] and extra[1] == want[-1] and gend["k"] == "more":
            return None
        return "empty-match-not-repeated", {"want": want[-1], "got": [extra, gend]}
    if extra:
        return "token-instead-of-" + k, {"want": end, "got": extra[0]}
    if gend["k"] == "exception":
        return "exception", {"want": end, "got": gend}
    if gend["k"] != k:
        return "%s-instead-of-%s" % (gend["k"], k), {"want": end, "got": gend}
    if (gend["line"], gend["col"]) != (end["line"], end["col"]):
        return "wrong-%s-position" % k, {"want": end, "got": gend}
    if k == "eof" and gend.get("text") != "":
        return "wrong-eof-text", {"want": end, "got": gend}
    return None


MODES = ("whole", "chunk1")


def real_job(Plex, job, modes=MODES):
    """-> (number of scans, list of mismatch records) for one lexicon"""
    out = []
    try:
        lexicon = Plex.Lexicon([(build_re(Plex, x), i + 1) for i, x in enumerate(job["rules"])])
    except Exception as ex:
        return 0, [{"l": job["l"], "rules": job["rules"], "s": None, "mode": "build", "case": None,
                    "cls": "lexicon-build-failed", "what": {"type": type(ex).__name__, "msg": str(ex)[:300]}}]
    n = 0
    for case in job["cases"]:
        s, toks, end = case[0], case[1], case[2]
        text = real_text(s)
        for mode in modes:
            gtoks, gend = real_scan(Plex, lexicon, text, mode, len(toks), end["k"])
            n += 1
            v = judge(s, toks, end, gtoks, gend)
            if v is not None:
                out.append({"l": job["l"], "rules": job["rules"], "s": s, "mode": mode, "case": case,
                            "cls": v[0], "what": v[1]})
    return n, out


def import_plex():
    from Cython import Plex
    from Cython.Plex import Scanners, DFA, Machines, Transitions, Regexps, Lexicons, Actions, Errors
    for m in (Scanners, DFA, Machines, Transitions, Regexps, Lexicons, Actions, Errors):
        assert m.__file__.endswith(".py"), m.__file__
    Plex.Errors = Errors
    return Plex


def main(argv):
    what, jobfile, outfile = argv[1:4]
    n = 0
    nrec = 0
    Plex = import_plex() if what == "real" else None
    with open(jobfile) as f, open(outfile, "w") as out:
        for line in f:
            job = json.loads(line)
            if what == "real":
                k, recs = real_job(Plex, job)
                n += k
            else:
                recs = oracle_job(job)
                n += len(job["cases"])
            for r in recs:
                nrec += 1
                if nrec <= 2000:
                    out.write(json.dumps(r) + "\n")
    print("@@" + json.dumps({"done": n, "records": nrec}))


if __name__ == "__main__":
    main(sys.argv)
