"""C43 helpers: the child that compiles many texts in-process with the compiler from the
snapshot, wrapping every phase of the main pipeline (a Python list of callables) so that each
compilation leaves an event record:

  {"id", "phases": [kind...], "ev": [[e, p, n, x]...], "final": {...}, "errors": [...]}

  e = "enter" | "exit" | "raise";  p = 1-based phase index;  n = errors counted so far;
  x = "" | "CompileError" | "CompilerCrash" | "AbortError" | "InternalError" | "Other"
  kinds: "parse" | "xform" | "abort" (abort_on_errors) | "codegen" | "post"

spec/Pipeline_Trace.tla decides which records are legal behaviours of spec/Pipeline.tla.
"""
import base64
import json
import os
import subprocess
import sys

import core

DRIVER = r'''
import base64, json, os, signal, sys, time, traceback, io
workfile, outfile, wd = sys.argv[1], sys.argv[2], sys.argv[3]
per_text_timeout = int(sys.argv[4])
import Cython
from Cython.Compiler import Main, Pipeline, Errors, Options, Parsing, Scanning
for _m in (Cython, Main, Pipeline, Errors, Parsing, Scanning):
    assert _m.__file__.endswith(".py"), _m.__file__

CUR = {"rec": None, "src": None}

def nerr():
    return Errors.threadlocal.cython_errors_count

def xclass(e):
    if isinstance(e, Errors.CompilerCrash): return "CompilerCrash"
    if isinstance(e, Errors.CompileError): return "CompileError"
    if isinstance(e, Errors.AbortError): return "AbortError"
    if isinstance(e, Errors.InternalError): return "InternalError"
    return "Other"

class Timeout(BaseException):
    pass

def on_alarm(sig, frm):
    raise Timeout()
# the limit is CPU time of this process (ITIMER_PROF), so that a loaded machine cannot produce "no termination";
# the timer repeats in case the compiler swallows the first exception
signal.signal(signal.SIGPROF, on_alarm)
def set_limit(seconds):
    signal.setitimer(signal.ITIMER_PROF, seconds, 2.0 if seconds else 0)

def kind_of(phase):
    n = getattr(phase, "__name__", type(phase).__name__)
    if n == "parse": return "parse"
    if n == "abort_on_errors": return "abort"
    if n == "generate_pyx_code_stage": return "codegen"
    return "xform"

class Wrapped(object):
    def __init__(self, phase, idx, rec):
        self.phase, self.idx, self.rec = phase, idx, rec
        self.__name__ = getattr(phase, "__name__", type(phase).__name__)
    def __call__(self, data):
        ev = self.rec["ev"]
        ev.append(["enter", self.idx, nerr(), ""])
        try:
            out = self.phase(data)
        except Timeout:
            set_limit(0)
            raise
        except BaseException as e:
            x = xclass(e)
            ev.append(["raise", self.idx, nerr(), x, bool(getattr(e, "reported", False))])
            self.rec["raised"] = {"cls": x, "type": type(e).__name__, "pos": err_pos(e), "msg": str(getattr(e, "message_only", e))[:300],
                                  "reported": bool(getattr(e, "reported", False)), "phase": self.__name__,
                                  "cause": crash_cause(e) if x == "CompilerCrash" else
                                           ({"type": type(e).__name__, "msg": str(e)[:160],
                                             "at": (lambda fr: "%s:%s" % (os.path.basename(fr[-1].filename), fr[-1].name) if fr else "?")(traceback.extract_tb(e.__traceback__))}
                                            if x in ("Other", "InternalError") else None),
                                  "tb": "".join(traceback.format_exception(type(e), e, e.__traceback__))[-1500:] if x in ("Other", "InternalError") else ""}
            raise
        ev.append(["exit", self.idx, nerr(), ""])
        return out

def wrap_factory(orig):
    def create(context, options, result, *a, **k):
        pl = orig(context, options, result, *a, **k)
        rec = CUR["rec"]
        if rec is None or rec.get("wrapped"):
            return pl           # only the main pipeline of the compilation is observed
        rec["wrapped"] = True
        out, kinds = [], []
        from Cython.Compiler.Visitor import PrintTree
        for ph in pl:
            if ph is None or isinstance(ph, PrintTree):
                continue        # run_pipeline skips these
            kinds.append(kind_of(ph))
            out.append(Wrapped(ph, len(kinds), rec))
        # everything after code generation is bookkeeping
        seen_cg = False
        for i, k in enumerate(kinds):
            if seen_cg: kinds[i] = "post"
            if k == "codegen": seen_cg = True
        rec["phases"] = kinds
        return out
    return create

Pipeline.create_pyx_pipeline = wrap_factory(Pipeline.create_pyx_pipeline)
# (create_py_pipeline calls create_pyx_pipeline through the module global, so it is wrapped as well)

def crash_cause(e):
    """for a CompilerCrash: the exception it wraps and where that was raised"""
    try:
        cause = e.args[3] if len(e.args) > 3 else None
        tb = e.args[4] if len(e.args) > 4 else None
        if cause is None:
            return None
        frames = traceback.extract_tb(tb or cause.__traceback__)
        last = frames[-1] if frames else None
        return {"type": type(cause).__name__, "msg": str(cause)[:160],
                "at": "%s:%s" % (os.path.basename(last.filename), last.name) if last else "?"}
    except Exception as x:
        return {"type": "?", "msg": repr(x)[:100], "at": "?"}

def err_pos(err):
    pos = getattr(err, "position", None)
    if not pos:
        return None
    try:
        fn = getattr(pos[0], "filename", None)
        return [bool(fn) and os.path.abspath(fn) == CUR["src"], int(pos[1]), int(pos[2])]
    except Exception as e:
        return ["badpos", repr(pos)[:100], 0]

def where(pos, msg):
    """does the position of a counted error point into the source text?"""
    if pos is None:
        return "marker" if msg == "" else "none"
    if pos[0] is not True:
        return "foreign"
    lines = CUR["lines"]
    line, col = pos[1], pos[2]
    if line < 1 or line > len(lines) + 1 or col < 0:
        return "range"
    width = len(lines[line - 1]) if line <= len(lines) else 0
    return "ok" if col <= width + 1 else "range"

_orig_report = Errors.report_error
def report_error(err, use_stack=True):
    before = nerr()
    try:
        return _orig_report(err, use_stack)
    finally:
        rec = CUR.get("rec")
        if rec is not None and nerr() > before:
            pos, msg = err_pos(err), str(getattr(err, "message_only", ""))
            w = where(pos, msg)
            rec["errors"].append({"cls": xclass(err), "pos": pos, "msg": msg[:300], "w": w,
                                  "cause": crash_cause(err) if isinstance(err, Errors.CompilerCrash) else None})
            rec["ev"].append(["error", 0, nerr(), xclass(err), w])
Errors.report_error = report_error

def repatch():
    # modules that did `from .Errors import report_error` hold the original function
    for name, mod in list(sys.modules.items()):
        if name.startswith("Cython.") and getattr(mod, "report_error", None) is _orig_report:
            mod.report_error = report_error

def compile_one(item):
    name = "m%d" % item["id"] if item["id"] >= 0 else "warmup"
    ext = "." + item.get("kind", "py")
    d = os.path.join(wd, name + "_d")
    os.makedirs(d, exist_ok=True)
    src = os.path.join(d, name + ext)
    data = base64.b64decode(item["b64"])
    with open(src, "wb") as f:
        f.write(data)
    cplus = bool(item.get("cplus"))
    rec = {"id": item["id"], "phases": [], "ev": [], "errors": [], "raised": None, "escaped": "", "timeout": False}
    CUR["rec"] = rec
    CUR["src"] = os.path.abspath(src)
    CUR["lines"] = data.splitlines()
    for k, v in (item.get("global_options") or {}).items():
        setattr(Options, k, v)
    out_c = os.path.join(d, name + (".cpp" if cplus else ".c"))
    t0 = time.time()
    result = None
    old_stderr = sys.stderr
    sys.stderr = io.StringIO()
    Errors.init_thread()
    set_limit(per_text_timeout)
    try:
        try:
            options = Main.CompilationOptions(Main.default_options, cplus=cplus, output_file=out_c,
                                              compiler_directives=dict(item.get("directives") or {}))
            result = Main.compile(src, options)
        finally:
            set_limit(0)
    except Timeout:
        rec["timeout"] = True
    except BaseException as e:
        rec["escaped"] = type(e).__name__
        rec["escaped_cls"] = xclass(e)
        rec["escaped_tb"] = "".join(traceback.format_exception(type(e), e, e.__traceback__))[-2500:]
    finally:
        rec["stderr"] = sys.stderr.getvalue()[-1500:]
        sys.stderr = old_stderr
        CUR["rec"] = None
    rec["wall"] = round(time.time() - t0, 3)
    cfile_ok = False
    if result is not None:
        rec["num_errors"] = int(result.num_errors)
        cf = result.c_file
        if cf and os.path.exists(cf):
            with open(cf, "rb") as f:
                head = f.read(200)
            cfile_ok = len(head) > 0 and not head.startswith(b"#error Do not use this file")
            rec["c_file"] = cf
    else:
        rec["num_errors"] = -1
    # a C file left on disk although the compilation failed must be the castrated stub
    stale = False
    if not cfile_ok and os.path.exists(out_c):
        with open(out_c, "rb") as f:
            head = f.read(200)
        stale = len(head) > 0 and not head.startswith(b"#error Do not use this file")
    rec["final"] = {"nerr": max(rec["num_errors"], 0), "counted": nerr(), "cfile": cfile_ok, "stale": stale,
                    "result": result is not None}
    rec["nlines"] = data.count(b"\n") + 1
    return rec

work = json.load(open(workfile))
# warm-up: the first compilation imports most of the compiler and loads the utility code (seconds; much more on a
# loaded machine); it is not charged to any text.  Every text is then compiled in a forked copy of this warmed-up
# process: no compiler state leaks from one text to the next, and a hard crash or a hang only costs the copy.
WARMUP = b"""
import os
async def co(a):
    async with a as b:
        async for c in b:
            await c
def gen(x, *a, k=1, **kw):
    "doc"
    try:
        with x as y:
            yield from (i for i in [j for j in x if j] if i)
    except (ValueError, TypeError) as e:
        raise KeyError(f'{e!r:>{k}}') from e
    finally:
        del y
    def inner():
        nonlocal x
        x = lambda q=k: {q: x}, {*a}, x[1:2]
        return x
    match x:
        case [1, *r] | {'a': r}:
            return r
        case str(s) if s:
            return s % (1, 2.5, 'a' 'b', b'c')
class K(dict, metaclass=type):
    z: int = 3
    @property
    def p(self):
        return super().get(self.z) is not None and -self.z ** 2 // 3 in (1, 2)
for i in range(10):
    while i:
        i -= 1
        if i > 5: break
        elif i < 2: continue
    else:
        assert i == 0, 'x'
print(*[1, 2], sep='')
"""
_saved = per_text_timeout
per_text_timeout = 0
_w = compile_one({"id": -1, "b64": base64.b64encode(WARMUP).decode(), "kind": "py"})
assert _w["final"]["cfile"], ("warm-up module does not compile", _w["errors"], _w["escaped"])
per_text_timeout = _saved
from Cython.Compiler import ExprNodes, MatchCaseNodes, Nodes, ModuleNode, Optimize, FlowControl
repatch()
import resource, gc
gc.collect()
gc.freeze()        # the children do not traverse (and thereby copy) the warmed-up heap
BATCH = int(sys.argv[5]) if len(sys.argv) > 5 else 40

def run_batch(items, out):
    """compile the items in ONE forked copy of this process; returns the items that still have to be done
    (after a death of the copy: everything behind the text that killed it)"""
    r, w = os.pipe()
    pid = os.fork()
    if pid == 0:
        code = 0
        try:
            os.close(r)
            wf = os.fdopen(w, "w")
            for item in items:
                if per_text_timeout:
                    # backup for hangs inside C code, where the SIGPROF handler cannot run: the copy is killed
                    used = int(time.process_time()) + 1
                    resource.setrlimit(resource.RLIMIT_CPU, (used + per_text_timeout * 2 + 10, resource.RLIM_INFINITY))
                try:
                    rec = compile_one(item)
                except BaseException as e:
                    rec = {"id": item["id"], "died": "driver: %s: %s" % (type(e).__name__, str(e)[:200])}
                wf.write(json.dumps(rec) + "\n")
                wf.flush()
            wf.close()
        except BaseException:
            code = 3
        finally:
            os._exit(code)
    os.close(w)
    got = 0
    with os.fdopen(r, "r") as rf:
        for line in rf:
            try:
                rec = json.loads(line)
            except ValueError:
                break
            out.write(json.dumps(rec) + "\n")
            got += 1
    out.flush()
    _, status = os.waitpid(pid, 0)
    if got >= len(items):
        return []
    item = items[got]
    if os.WIFSIGNALED(status):
        sig = os.WTERMSIG(status)
        died = ("cpu limit (signal %d)" if sig in (signal.SIGXCPU, signal.SIGKILL) else "signal %d") % sig
    else:
        died = "exit %d" % os.WEXITSTATUS(status)
    out.write(json.dumps({"id": item["id"], "died": died}) + "\n")
    out.flush()
    return items[got + 1:]

with open(outfile, "a") as out:
    for k in range(0, len(work), BATCH):
        todo = work[k:k + BATCH]
        while todo:
            todo = run_batch(todo, out)
    out.write(json.dumps({"done": len(work)}) + "\n")
'''


def b64(text_or_bytes):
    if isinstance(text_or_bytes, str):
        text_or_bytes = text_or_bytes.encode("utf8", "surrogatepass")
    return base64.b64encode(text_or_bytes).decode("ascii")


def compile_texts(items, workdir, jobs=4, per_text_timeout=120, shard_timeout=3000, tag="w", batch=40):
    """items: [{"id", "b64", "kind", optional "cplus"/"directives"/"global_options"}].
    Returns {id: record}.  Each shard is one warmed-up compiler process that compiles its texts in forked copies of
    itself, `batch` texts per copy (batch=1: every text in a pristine copy).  A text that kills its copy gets
    {"died": "<signal/rc>"}; if the shard process itself dies the rest of the shard is re-run."""
    import concurrent.futures
    os.makedirs(workdir, exist_ok=True)
    drv = os.path.join(workdir, "c43_driver.py")
    with open(drv, "w") as f:
        f.write(DRIVER)
    jobs = max(1, min(jobs, len(items) or 1))
    shards = [items[i::jobs] for i in range(jobs)]

    def run_shard(k):
        todo = list(shards[k])
        got = {}
        rounds = 0
        while todo:
            rounds += 1
            wf = os.path.join(workdir, "%s_%d_%d.json" % (tag, k, rounds))
            of = os.path.join(workdir, "%s_%d_%d.out" % (tag, k, rounds))
            with open(wf, "w") as f:
                json.dump(todo, f)
            if os.path.exists(of):
                os.unlink(of)
            ch = core.run_child(drv, [wf, of, workdir, str(per_text_timeout), str(batch)], with_snapshot=True,
                                timeout=shard_timeout, mem_mb=6144)
            done = False
            if os.path.exists(of):
                with open(of) as f:
                    for line in f:
                        line = line.strip()
                        if not line:
                            continue
                        try:
                            r = json.loads(line)
                        except ValueError:
                            continue
                        if "done" in r:
                            done = True
                        else:
                            got[r["id"]] = r
            rest = [w for w in todo if w["id"] not in got]
            if done or not rest:
                break
            first = rest[0]
            got[first["id"]] = {"id": first["id"], "died": "timeout" if ch.timed_out else
                                ("signal %d" % ch.signal if ch.crashed else "exit %s" % ch.rc),
                                "stderr": ch.err[-2000:]}
            todo = rest[1:]
            if rounds > 30:
                core.die("C43: too many dead compiler children in one shard")
        return got

    out = {}
    with concurrent.futures.ThreadPoolExecutor(max_workers=jobs) as ex:
        for got in ex.map(run_shard, range(jobs)):
            out.update(got)
    return out


def cc_syntax_only(c_files, jobs=4, cplus=False, timeout=600):
    """gcc/g++ -fsyntax-only on generated files -> {path: (ok, stderr tail)}"""
    import concurrent.futures
    inc = core.py_include()

    def one(cf):
        cc = "g++" if (cplus or cf.endswith(".cpp")) else "gcc"
        cmd = [cc, "-fsyntax-only", "-w", "-O0", "-I" + inc, cf]
        try:
            p = subprocess.run(cmd, capture_output=True, text=True, timeout=timeout)
            return cf, (p.returncode == 0, (p.stdout + p.stderr)[-1500:])
        except subprocess.TimeoutExpired:
            return cf, (None, "cc timeout")

    with concurrent.futures.ThreadPoolExecutor(max_workers=jobs) as ex:
        return dict(ex.map(one, c_files))
