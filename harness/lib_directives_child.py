"""C41 child process (runs with the snapshot of /repo on PYTHONPATH).

usage: lib_directives_child.py facts  jobs.json   -> one '@@{json}' line per job
       lib_directives_child.py parse  jobs.json   -> one '@@{json}' line per request batch

`facts`: compile each job's source with the real compiler (Cython only, no C compiler) and
export the compiler directives that the compiler itself associates with every *marker*
(the only `//` operations of the source = DivNodes, keyed by source line) and with every named
function, at four points of the real pipeline:
   tree : the tree returned by InterpretCompilerDirectives (ModuleNode.directives /
          CompilerDirectivesNode.directives enclosing the node)
   ana  : env.directives seen by DivNode.analyse_operation (type analysis)
   gen  : code.globalstate.directives seen by DivNode.generate_evaluation_code (C generation)
   fgen : code.globalstate.directives seen by FuncDefNode.generate_function_definitions
          (keyed by function name)
Nothing of the compiler is edited: the methods are wrapped at run time in this process.

`parse`: call the real Options.parse_directive_value / parse_directive_list on texts.
"""
import io
import json
import os
import sys
import traceback


def _imports():
    import Cython
    assert Cython.__file__.endswith(".py"), Cython.__file__
    from Cython.Compiler import Options
    assert Options.__file__.endswith(".py"), Options.__file__
    return Cython


# ----------------------------------------------------------------------------- facts

STATE = {"file": None, "dirs": [], "facts": None}


def _pick(d):
    return {k: d.get(k, "<missing>") for k in STATE["dirs"]}


def _mine(pos):
    try:
        fn = pos[0].get_description() if hasattr(pos[0], "get_description") else str(pos[0])
    except Exception:
        return False
    return STATE["file"] is not None and os.path.basename(fn) == STATE["file"]


def _funcname(node):
    n = getattr(node, "name", None)
    if n is None:
        decl = getattr(node, "declarator", None)
        while decl is not None and not hasattr(decl, "name"):
            decl = getattr(decl, "base", None)
        n = getattr(decl, "name", None)
    if n is None and getattr(node, "entry", None) is not None:
        n = node.entry.name
    return str(n) if n is not None else None


def install_hooks():
    from Cython.Compiler import ParseTreeTransforms as PTT, ExprNodes, Nodes, ModuleNode
    from Cython.Compiler.Visitor import TreeVisitor
    for m in (PTT, ExprNodes, Nodes, ModuleNode):
        assert m.__file__.endswith(".py"), m.__file__

    class Walk(TreeVisitor):
        def __init__(self, out):
            super().__init__()
            self.cur = None
            self.out = out

        def visit_ModuleNode(self, node):
            self.cur = node.directives
            self.visitchildren(node)

        def visit_CompilerDirectivesNode(self, node):
            old = self.cur
            self.cur = node.directives
            self.visitchildren(node)
            self.cur = old

        def visit_Node(self, node):
            self.visitchildren(node)

        def visit_DivNode(self, node):
            if _mine(node.pos):
                self.out["tree"].setdefault(str(node.pos[1]), []).append(_pick(self.cur))
            self.visitchildren(node)

        def visit_FuncDefNode(self, node):
            n = _funcname(node)
            if n and _mine(node.pos):
                self.out["ftree"].setdefault(n, []).append(_pick(self.cur))
            self.visitchildren(node)

    orig_call = PTT.InterpretCompilerDirectives.__call__

    def icd_call(self, root):
        r = orig_call(self, root)
        f = STATE["facts"]
        if f is not None and isinstance(r, ModuleNode.ModuleNode) and _mine(r.pos):
            f["module"] = _pick(r.directives)
            Walk(f).visit(r)
        return r
    PTT.InterpretCompilerDirectives.__call__ = icd_call

    orig_ana = ExprNodes.DivNode.analyse_operation

    def ana(self, env):
        f = STATE["facts"]
        if f is not None and _mine(self.pos):
            f["ana"].setdefault(str(self.pos[1]), []).append(_pick(env.directives))
        return orig_ana(self, env)
    ExprNodes.DivNode.analyse_operation = ana

    orig_gen = ExprNodes.DivNode.generate_evaluation_code

    def gen(self, code):
        f = STATE["facts"]
        if f is not None and _mine(self.pos):
            f["gen"].setdefault(str(self.pos[1]), []).append(_pick(code.globalstate.directives))
        return orig_gen(self, code)
    ExprNodes.DivNode.generate_evaluation_code = gen

    orig_fgen = Nodes.FuncDefNode.generate_function_definitions

    def fgen(self, env, code):
        f = STATE["facts"]
        if f is not None and _mine(self.pos):
            n = _funcname(self)
            if n:
                f["fgen"].setdefault(n, []).append(_pick(code.globalstate.directives))
        return orig_fgen(self, env, code)
    Nodes.FuncDefNode.generate_function_definitions = fgen


def run_fact_job(job):
    from Cython.Compiler import Errors, Options
    from Cython.Compiler.Main import compile as cy_compile
    d = job["workdir"]
    os.makedirs(d, exist_ok=True)
    ext = ".py" if job.get("kind") == "py" else ".pyx"
    src = os.path.join(d, job["name"] + ext)
    with open(src, "w", encoding="utf8", newline="") as f:
        f.write(job["source"])
    out_c = os.path.join(d, job["name"] + ".c")
    res = {"name": job["name"], "crash": None, "num_errors": None, "stderr": "", "facts": None,
           "effective_options": None}
    STATE["file"] = os.path.basename(src)
    STATE["dirs"] = job["dirs"]
    STATE["facts"] = {"tree": {}, "ftree": {}, "ana": {}, "gen": {}, "fgen": {}}
    errbuf = io.StringIO()
    old_err, old_out = sys.stderr, sys.stdout
    sys.stderr = errbuf
    sys.stdout = errbuf
    try:
        Errors.init_thread()
        transport = job.get("transport", "options")
        directives = dict(job.get("directives") or {})
        if transport == "options":
            opts = Options.CompilationOptions(compiler_directives=dict(directives, language_level=3),
                                              output_file=out_c)
            r = cy_compile(src, opts)
            res["num_errors"] = r.num_errors
        elif transport == "cmdline":
            from Cython.Compiler import CmdLine
            args = ["-3"]
            for x in job.get("xargs") or []:
                args += ["-X", x]
            args += ["-o", out_c, src]
            opts, sources = CmdLine.parse_command_line(args)
            res["effective_options"] = {k: opts.compiler_directives.get(k, "<absent>") for k in job["dirs"]}
            r = cy_compile(sources, opts)
            res["num_errors"] = r.num_errors
        elif transport == "cythonize":
            from Cython.Build.Dependencies import cythonize
            from Cython.Compiler.Errors import CompileError
            try:
                cythonize([src], compiler_directives=directives, language_level=3, force=True, quiet=True,
                          nthreads=0)
                res["num_errors"] = 0
            except CompileError:
                res["num_errors"] = 1
        else:
            raise RuntimeError("unknown transport %r" % transport)
    except BaseException as e:   # an uncaught exception of the compiler is an observation
        res["crash"] = type(e).__name__
        res["crash_tb"] = traceback.format_exc()[-1500:]
    finally:
        sys.stderr, sys.stdout = old_err, old_out
    res["stderr"] = errbuf.getvalue()[-3000:]
    if res["crash"] is None and "Compiler crash in " in errbuf.getvalue():
        # an exception inside a tree transform is reported as an error ("Compiler crash in <phase>")
        text = errbuf.getvalue()
        last = [l for l in text.strip().splitlines() if l and not l.startswith(" ")]
        exc = last[-1].split(":")[0].strip() if last else "unknown"
        res["crash"] = exc.split(".")[-1] if exc.replace(".", "").replace("_", "").isalnum() else "CompilerCrash"
        res["crash_tb"] = text[-1500:]
    res["facts"] = STATE["facts"]
    STATE["facts"] = None
    return res


# ----------------------------------------------------------------------------- parse


def _jsonable(v):
    if isinstance(v, dict):
        return {str(k): _jsonable(x) for k, x in v.items()}
    if isinstance(v, (list, tuple)):
        return [_jsonable(x) for x in v]
    if v is None or isinstance(v, (bool, int, str)):
        return v
    return "<%s>" % type(v).__name__


def run_parse(req):
    """req: {"value": [[name, text, relaxed], ...], "list": [[text, relaxed, ignore_unknown], ...]}
    -> {"value": [obs...], "list": [obs...]}  obs = ["ok", value] | ["exc", TypeName]"""
    from Cython.Compiler import Options
    out = {"value": [], "list": []}
    for name, text, relaxed in req.get("value", ()):
        try:
            out["value"].append(["ok", _jsonable(Options.parse_directive_value(name, text, relaxed_bool=relaxed))])
        except BaseException as e:
            out["value"].append(["exc", type(e).__name__])
    for text, relaxed, ign in req.get("list", ()):
        try:
            out["list"].append(["ok", _jsonable(Options.parse_directive_list(text, relaxed_bool=relaxed,
                                                                               ignore_unknown=ign))])
        except BaseException as e:
            out["list"].append(["exc", type(e).__name__])
    if req.get("table"):
        # the implementation's own directive table: which names a directive string can reach
        # (keys of the defaults) and the class of their type
        def tclass(t):
            if t is bool:
                return "bool"
            if t is int:
                return "int"
            if t is str:
                return "str"
            if t is list:
                return "list"
            if t in (dict, type, type(None)) or t is None or not callable(t):
                return "novalue"
            return "validator"
        out["table"] = {"types": {n: tclass(Options.directive_types.get(n)) for n in Options._directive_defaults},
                        "scopes": {n: list(v) if isinstance(v, (tuple, list)) else [v]
                                   for n, v in Options.directive_scopes.items()}}
    if req.get("sweep_texts"):
        # every name a directive string can reach x a few texts, both ways parse_directive_list is called
        out["sweep"] = []
        for name in sorted(Options._directive_defaults):
            for t in req["sweep_texts"]:
                for relaxed, ign in ((False, True), (True, False)):
                    try:
                        o = ["ok", _jsonable(Options.parse_directive_list("%s=%s" % (name, t), relaxed_bool=relaxed,
                                                                           ignore_unknown=ign))]
                    except BaseException as e:
                        o = ["exc", type(e).__name__]
                    out["sweep"].append([name, t, relaxed, o])
    return out


def main():
    mode, path = sys.argv[1], sys.argv[2]
    _imports()
    with open(path) as f:
        req = json.load(f)
    real_out = sys.stdout
    if mode == "facts":
        install_hooks()
        for job in req["jobs"]:
            r = run_fact_job(job)
            real_out.write("@@" + json.dumps(r, default=str) + "\n")
            real_out.flush()
    elif mode == "parse":
        r = run_parse(req)
        outp = req.get("out")
        if outp:
            with open(outp, "w") as f:
                json.dump(r, f)
            real_out.write("@@" + json.dumps({"done": True}) + "\n")
        else:
            real_out.write("@@" + json.dumps(r) + "\n")
    else:
        raise SystemExit("bad mode")


if __name__ == "__main__":
    main()
