"""C41 helpers: independent evaluator of directive scoping (P), rendering of the scope trees
published by spec/Directives.tla as Cython source, expected observations.

A *case* is a record published by the spec:
  nodes [{kind, par, st[{d,v}], ov{p,q}}] (node numbers 1..n, 0 = module), hdr{p,q}, opt{p,q}, hpos,
  eff0{p,q}, eff [{p,q}], owner [..], deferred [{p,q}], shadow [{p,q}]
st is the list of directive decorators / with-items in source order (a directive may be repeated),
ov the winning value per directive as the spec derives it.
The abstract directives p (default False) and q (default True) are mapped to real ones.
"""
import json

P_REAL = ["cdivision", "nonecheck", "overflowcheck"]                      # default False
Q_REAL = ["boundscheck", "wraparound", "binding", "initializedcheck"]     # default True
ALL_REAL = P_REAL + Q_REAL
DEFAULTS = dict([(d, False) for d in P_REAL] + [(d, True) for d in Q_REAL])
LEAVES = ("lam", "gen", "comp")


def case_key(c):
    return json.dumps([c["nodes"], c["hdr"], c["opt"], c["hpos"]], sort_keys=True)


def src_key(c):
    return json.dumps([c["hdr"], c["opt"], c["hpos"]], sort_keys=True)


# ----------------------------------------------------------------------------- P: independent evaluator

def p_override(node, d):
    """what the decorators / with-items of one node say about d: the first decorator naming d
    counts (decorators coming first take precedence); of several items of one with-statement
    the last one (`with a, b:` is `with a:` around `with b:`).  None if d is not named."""
    vals = [it["v"] for it in node["st"] if it["d"] == d]
    if not vals:
        return None
    return (vals[-1] if node["kind"] == "with" else vals[0]) == "T"


def p_effective(case, i, d):
    """Nearest enclosing decorator/with override, else header (if it is a header), else option,
    else default -- written directly from the property statement."""
    j = i
    while j != 0:
        v = p_override(case["nodes"][j - 1], d)
        if v is not None:
            return v
        j = case["nodes"][j - 1]["par"]
    if case["hpos"] != "late" and case["hdr"][d] != "-":
        return case["hdr"][d] == "T"
    if case["opt"][d] != "-":
        return case["opt"][d] == "T"
    return {"p": False, "q": True}[d]


def p_owner(case, i):
    """scope whose code generation / analysis owns node i's code"""
    nodes = case["nodes"]
    j = nodes[i - 1]["par"] if nodes[i - 1]["kind"] in LEAVES else i
    while j != 0 and nodes[j - 1]["kind"] == "with":
        j = nodes[j - 1]["par"]
    return j


def p_shadow(case, i, d):
    """class of node i's list with respect to d: none / single / same / restore / flip"""
    nd = case["nodes"][i - 1]
    vals = [it["v"] for it in nd["st"] if it["d"] == d]
    if not vals:
        return "none"
    if len(vals) == 1:
        return "single"
    if len(set(vals)) == 1:
        return "same"
    return "restore" if p_override(nd, d) == p_effective(case, nd["par"], d) else "flip"


def governing(case, i, d):
    """node whose decorators / with-items give d its value at node i (0: module-wide sources)"""
    j = i
    while j != 0 and p_override(case["nodes"][j - 1], d) is None:
        j = case["nodes"][j - 1]["par"]
    return j


def shadow_real(case, i, real, preal, qreal):
    """shadow class of the list that governs the real directive at node i"""
    d = "p" if real == preal else ("q" if real == qreal else None)
    if d is None:
        return "none"
    j = governing(case, i, d)
    return p_shadow(case, j, d) if j else "none"


def has_class(case, classes, kinds=None):
    for i, nd in enumerate(case["nodes"], 1):
        if kinds is not None and (nd["kind"] == "with") != (kinds == "with"):
            continue
        if any(case["shadow"][i - 1][d] in classes for d in ("p", "q")):
            return True
    return False


def is_canonical(nd):
    return nd["st"] == [{"d": d, "v": nd["ov"][d]} for d in ("p", "q") if nd["ov"][d] != "-"]


def drift(case):
    """S vs P on one published case -> list of differences"""
    out = []
    n = len(case["nodes"])
    for i in range(1, n + 1):
        nd = case["nodes"][i - 1]
        for d in ("p", "q"):
            o = p_override(nd, d)
            if nd["ov"][d] != ("-" if o is None else ("T" if o else "F")):
                out.append((i, "ov", d))
            if case["shadow"][i - 1][d] != p_shadow(case, i, d):
                out.append((i, "shadow", d, case["shadow"][i - 1][d]))
    for i in range(0, n + 1):
        s = case["eff0"] if i == 0 else case["eff"][i - 1]
        for d in ("p", "q"):
            if s[d] != p_effective(case, i, d):
                out.append((i, d, s[d]))
    for i in range(1, n + 1):
        if case["owner"][i - 1] != p_owner(case, i):
            out.append((i, "owner", case["owner"][i - 1]))
        if case["nodes"][i - 1]["kind"] in LEAVES:
            o = p_owner(case, i)
            for d in ("p", "q"):
                if case["deferred"][i - 1][d] != (p_effective(case, i, d) != p_effective(case, o, d)):
                    out.append((i, "deferred", d))
    return out


def real_vector(case, i, preal, qreal):
    """expected value of every real directive at node i"""
    v = dict(DEFAULTS)
    e = case["eff0"] if i == 0 else case["eff"][i - 1]
    v[preal] = e["p"]
    v[qreal] = e["q"]
    return v


def deferred_real(case, i, preal, qreal):
    """real directives whose demanded value at leaf i differs from the owner scope's"""
    if i == 0:
        return []
    d = case["deferred"][i - 1]
    return [r for a, r in (("p", preal), ("q", qreal)) if d[a]]


# ----------------------------------------------------------------------------- rendering

def _pyval(v):
    return "True" if v == "T" else "False"


class Module(object):
    """Renders a group of cases that share (hdr, opt, hpos) into one .pyx.

    b1=False: markers only (one `//` per site; B3 facts)
    b1=True : additionally memoryview index probes and function-type probes (behaviour)."""

    def __init__(self, name, cases, preal, qreal, b1=False, with_style=0):
        self.name = name
        self.cases = cases
        self.preal, self.qreal = preal, qreal
        self.b1 = b1
        self.with_style = with_style
        self.lines = []
        self.sites = {}      # line number -> site record
        self.site_by_id = {}
        self.funcs = {}      # function name -> (case index, node)
        self.znum = 0
        self.bind_probes = {}   # case index -> list of (key, expr, node)
        self.render()

    # -- small helpers
    def real(self, d):
        return self.preal if d == "p" else self.qreal

    def emit(self, indent, text):
        self.lines.append("    " * indent + text)
        return len(self.lines)

    @property
    def args_decl(self):
        return "int a, int b, int z" + (", int[:] mv, int i1, int i2" if self.b1 else "")

    @property
    def args_call(self):
        return "a, b, z" + (", mv, i1, i2" if self.b1 else "")

    def directive_opts(self, which):
        c = self.cases[0]
        return {self.real(d): c[which][d] == "T" for d in ("p", "q") if c[which][d] != "-"}

    def new_site(self, k, i, where, kind, ctx):
        self.znum += 1
        sid = "k%dn%d%s" % (k, i, where)
        rec = {"sid": sid, "case": k, "node": i, "where": where, "kind": kind, "ctx": ctx, "z": self.znum,
               "line": None}
        self.site_by_id[sid] = rec
        return rec

    def mark(self, rec, line):
        rec["line"] = line
        self.sites[line] = rec

    # -- sites
    def site(self, k, i, where, kind, ctx, indent):
        """a probe in the body of node i (or the leaf i itself)"""
        rec = self.new_site(k, i, where, kind, ctx)
        sid, z = rec["sid"], rec["z"]
        leaf = kind in LEAVES
        if ctx == "mod":
            A, Bv, MV, I1, I2, R = "GA", "GB", "GMV", "GI1", "GI2", "MR"
        else:
            A, Bv, MV, I1, I2, R = "a", "b", "mv", "i1", "i2", "r"

        def expr(e):
            if kind == "gen":
                return "list(%s for _ in range(1))[0]" % e
            if kind == "comp":
                return "[%s for _ in range(1)][0]" % e
            return e

        div = "%s // %s" % (A, Bv)
        if kind == "lam":
            self.mark(rec, self.emit(indent, "%s_g = lambda: %s" % (sid, div)))
            dval = "%s_g()" % sid
        else:
            dval = None
        if ctx == "mod":
            if kind == "lam":
                self.emit(indent, '%s["%sd"] = %s' % (R, sid, dval))
            else:
                self.mark(rec, self.emit(indent, '%s["%sd"] = %s' % (R, sid, expr(div))))
        else:
            self.emit(indent, "if z == 0 or z == %d:" % z)
            self.emit(indent + 1, "try:")
            if kind == "lam":
                self.emit(indent + 2, 'r["%sd"] = %s' % (sid, dval))
            else:
                self.mark(rec, self.emit(indent + 2, 'r["%sd"] = %s' % (sid, expr(div))))
            self.emit(indent + 1, "except ZeroDivisionError:")
            self.emit(indent + 2, 'r["%sd"] = "ZE"' % sid)
        if self.b1:
            for tag, idx in (("i", I1), ("j", I2)):
                e = "%s[%s]" % (MV, idx)
                ind = indent
                if ctx != "mod":
                    self.emit(indent, "if z == 0:")
                    ind = indent + 1
                if kind == "lam":
                    self.emit(ind, "%s_h%s = lambda: %s" % (sid, tag, e))
                    e2 = "%s_h%s()" % (sid, tag)
                else:
                    e2 = expr(e)
                self.emit(ind, "try:")
                self.emit(ind + 1, '%s["%s%s"] = %s' % (R, sid, tag, e2))
                self.emit(ind, "except IndexError:")
                self.emit(ind + 1, '%s["%s%s"] = "IE"' % (R, sid, tag))
        return rec

    # -- nodes
    def decorators(self, st, indent):
        for it in st:
            self.emit(indent, "@cython.%s(%s)" % (self.real(it["d"]), _pyval(it["v"])))

    def children(self, case, i):
        return [j for j in range(1, len(case["nodes"]) + 1) if case["nodes"][j - 1]["par"] == i]

    def node(self, k, i, indent, ctx, drv):
        """ctx: 'mod' | 'func' | 'cfn' | 'cclass' | 'pyclass' (what kind of body we are in)"""
        case = self.cases[k]
        nd = case["nodes"][i - 1]
        kind, st = nd["kind"], nd["st"]
        name = "k%dn%d" % (k, i)
        kids = self.children(case, i)
        if kind in LEAVES:
            self.site(k, i, "leaf", kind, "mod" if ctx == "mod" else "func", indent)
        elif kind == "with":
            items = ["cython.%s(%s)" % (self.real(it["d"]), _pyval(it["v"])) for it in st]
            if len(items) >= 2 and (self.with_style + k + i) % 2:
                for it in items[:-1]:
                    self.emit(indent, "with %s:" % it)
                    indent += 1
                self.emit(indent, "with %s:" % items[-1])
            else:
                self.emit(indent, "with %s:" % ", ".join(items))
            sctx = "mod" if ctx == "mod" else "func"
            self.site(k, i, "pre", "with", sctx, indent + 1)
            for j in kids:
                self.node(k, j, indent + 1, ctx, drv)
            if kids:
                self.site(k, i, "post", "with", sctx, indent + 1)
        elif kind in ("def", "cfn"):
            self.decorators(st, indent)
            selfarg = "self, " if ctx in ("cclass", "pyclass") else ""
            if kind == "def":
                self.emit(indent, "def %s(%s%s):" % (name, selfarg, self.args_decl))
            else:
                self.emit(indent, "cdef object %s(%s%s):" % (name, selfarg, self.args_decl))
            self.funcs[name] = (k, i)
            self.emit(indent + 1, "r = {}")
            self.site(k, i, "pre", kind, "func", indent + 1)
            for j in kids:
                self.node(k, j, indent + 1, "func" if kind == "def" else "cfn", drv)
            if kids:
                self.site(k, i, "post", kind, "func", indent + 1)
            self.emit(indent + 1, "return r")
            if ctx in ("func", "cfn"):
                self.emit(indent, "r.update(%s(%s))" % (name, self.args_call))
            elif ctx == "mod":
                drv["calls"].append("r.update(%s(%s))" % (name, self.args_call))
                if kind == "def":
                    drv["bind"].append(("%sB" % name, "type(%s).__name__" % name, i))
            else:
                cls = "k%dn%d" % (k, nd["par"])
                drv["calls"].append("r.update(o_%s.%s(%s))" % (cls, name, self.args_call))
                if kind == "def" and ctx == "cclass":
                    drv["bind"].append(("%sB" % name, "type(%s.%s).__name__" % (cls, name), i))
        elif kind in ("cclass", "pyclass"):
            self.decorators(st, indent)
            self.emit(indent, ("cdef class %s:" if kind == "cclass" else "class %s:") % name)
            if kind == "cclass":
                drv["decls"].append("cdef %s o_%s" % (name, name))
            drv["calls"].append("o_%s = %s()" % (name, name))
            if not kids:
                self.emit(indent + 1, "pass")
            for j in kids:
                self.node(k, j, indent + 1, kind, drv)
        else:
            raise ValueError(kind)

    def header_line(self):
        c = self.cases[0]
        items = ["%s=%s" % (self.real(d), _pyval(c["hdr"][d])) for d in ("p", "q") if c["hdr"][d] != "-"]
        return ("# cython: " + ", ".join(items)) if items else None

    def render(self):
        c0 = self.cases[0]
        h = self.header_line()
        if h and c0["hpos"] == "top":
            self.emit(0, h)
        elif h and c0["hpos"] == "after_comment":
            self.emit(0, "# generated by /verif (C41)")
            self.emit(0, "")
            self.emit(0, h)
        self.emit(0, "cimport cython")
        if h and c0["hpos"] == "late":
            self.emit(0, h)
        self.emit(0, "cdef int GA = -7, GB = 2")
        if self.b1:
            self.emit(0, "import array as _array")
            self.emit(0, "cdef int[:] GBIG = _array.array('i', [99, 10, 20, 30, 77])")
            self.emit(0, "cdef int[:] GMV = GBIG[1:4]")
            self.emit(0, "cdef int GI1 = -1, GI2 = 3")
        self.emit(0, "MR = {}")
        self.emit(0, "def mod_results():")
        self.emit(1, "return MR")
        self.site(0, 0, "pre", "mod", "mod", 0)
        for k, case in enumerate(self.cases):
            drv = {"decls": [], "calls": [], "bind": []}
            for i in self.children(case, 0):
                self.node(k, i, 0, "mod", drv)
            self.site(k, 0, "post", "mod", "mod", 0)
            self.emit(0, "def k%d_run(%s):" % (k, self.args_decl))
            for dl in drv["decls"]:
                self.emit(1, dl)
            self.emit(1, "r = {}")
            for cl in drv["calls"]:
                self.emit(1, cl)
            if self.b1:
                self.emit(1, "if z == 0:")
                self.emit(2, "pass")
                for key, e, i in drv["bind"]:
                    self.emit(2, 'r["%s"] = %s' % (key, e))
            self.bind_probes[k] = drv["bind"]
            self.emit(1, "return r")

    @property
    def source(self):
        return "\n".join(self.lines) + "\n"

    # -- expectations
    def expected_vector(self, rec):
        return real_vector(self.cases[rec["case"]], rec["node"], self.preal, self.qreal)

    def descriptor(self, rec, point, directive=None):
        case = self.cases[rec["case"]]
        i = rec["node"]
        dfr = deferred_real(case, i, self.preal, self.qreal)
        return {"part": "scope", "point": point, "kind": rec["kind"],
                "shadow": shadow_real(case, i, directive, self.preal, self.qreal) if directive else "none",
                "differs_from_owner": (directive in dfr) if directive else bool(dfr),
                "owner_kind": ("mod" if p_owner(case, i) == 0 else case["nodes"][p_owner(case, i) - 1]["kind"]) if i else "mod"}


def run_expectations(mod, k):
    """Expected observations of k<k>_run(-7, 2, 0, MV, -1, 3) -> {key: value or None (no demand)},
    plus the list of zero-division calls [(z, key)] where ZeroDivisionError is demanded."""
    exp, zcalls = {}, []
    for rec in mod.site_by_id.values():
        if rec["case"] != k or rec["ctx"] == "mod":
            continue
        v = mod.expected_vector(rec)
        sid = rec["sid"]
        exp[sid + "d"] = -3 if v["cdivision"] else -4
        if not v["cdivision"]:
            zcalls.append((rec["z"], sid + "d"))
        if mod.b1:
            exp[sid + "i"] = 30 if v["wraparound"] else ("IE" if v["boundscheck"] else None)
            exp[sid + "j"] = "IE" if v["boundscheck"] else None
    for key, e, i in mod.bind_probes.get(k, ()):
        v = real_vector(mod.cases[k], i, mod.preal, mod.qreal)
        exp[key] = "cyfunc" if v["binding"] else "cfunc"
    return exp, zcalls


def mod_expectations(mod):
    exp = {}
    for rec in mod.site_by_id.values():
        if rec["ctx"] != "mod":
            continue
        v = mod.expected_vector(rec)
        sid = rec["sid"]
        exp[sid + "d"] = -3 if v["cdivision"] else -4
        if mod.b1:
            exp[sid + "i"] = 30 if v["wraparound"] else ("IE" if v["boundscheck"] else None)
            exp[sid + "j"] = "IE" if v["boundscheck"] else None
    return exp


def norm_obs(key, val):
    """normalise an observed value of the run dictionary"""
    if key.endswith("B"):
        return "cyfunc" if val == "cython_function_or_method" else "cfunc"
    return val
