"""Helpers for C47 (spec/Strip.tla <-> Cython.Build.Dependencies.strip_string_literals).

render()        character names of the spec -> text
p_classes()     P: class of every character according to CPython's tokenize module
partition()     C: K/X (kept / replaced by a label) for every character, from the real
                function's (stripped, literals), checking losslessness on the way
judge()         demands of the property on one case
CHILD           script run on the snapshot: calls the real functions, returns raw results
"""
import io
import re
import tokenize

NAMES = {"SQ": "'", "DQ": '"', "BS": "\\", "NL": "\n"}
LABEL = re.compile(r"__Pyx_L[0-9]+_")
DEP_WORDS = ("cimport", "include", "extern")


def render(chars):
    return "".join(NAMES.get(c, c) for c in chars)


# --------------------------------------------------------------------------
# P: tokenize


def _split_string_token(s):
    """(prefix length, quote length) of a STRING / FSTRING_START token."""
    p = 0
    while s[p] not in "'\"":
        p += 1
    q = 3 if s[p:p + 3] in ("'''", '"""') else 1
    return p, q


def p_classes(text):
    """Class of every character by the tokenize module:
    C code, P prefix/quotes/'#', L literal body, F f-string literal text (FSTRING_MIDDLE:
    literal part or format spec), M comment body, E anything else inside an f-string.
    Returns (classes, None) or (None, error)."""
    n = len(text)
    starts = [0]
    for i, ch in enumerate(text):
        if ch == "\n":
            starts.append(i + 1)
    starts.append(n)  # the line after the last newline (ENDMARKER)

    def off(pos):
        row, col = pos
        base = starts[row - 1] if row - 1 < len(starts) else n
        return min(base + col, n)

    cls = [None] * n
    depth = 0
    prev_end = 0

    def gap(a, b):
        for i in range(a, b):
            if cls[i] is None:
                if depth > 0:
                    cls[i] = "F" if text[i] in "{}" else "E"
                else:
                    cls[i] = "C"

    try:
        for t in tokenize.generate_tokens(io.StringIO(text).readline):
            a, b = off(t.start), off(t.end)
            gap(prev_end, a)
            name = tokenize.tok_name[t.type]
            if name == "ERRORTOKEN":
                return None, "ERRORTOKEN %r" % (t.string,)
            if name == "STRING":
                p, q = _split_string_token(t.string)
                d = "E" if depth > 0 else "P"
                for i in range(a, b):
                    cls[i] = d if (i < a + p + q or i >= b - q) else "L"
            elif name == "FSTRING_START":
                for i in range(a, b):
                    cls[i] = "E" if depth > 0 else "P"
                depth += 1
            elif name == "FSTRING_END":
                depth -= 1
                for i in range(a, b):
                    cls[i] = "E" if depth > 0 else "P"
            elif name == "FSTRING_MIDDLE":
                for i in range(a, b):
                    cls[i] = "F"
            elif name == "COMMENT":
                for i in range(a, b):
                    cls[i] = "M"
                cls[a] = "E" if depth > 0 else "P"
            else:
                for i in range(a, b):
                    cls[i] = "E" if depth > 0 else "C"
            prev_end = max(prev_end, b)
    except (tokenize.TokenError, SyntaxError, IndentationError) as ex:
        return None, "%s: %s" % (type(ex).__name__, ex)
    gap(prev_end, n)
    if depth != 0:
        return None, "unbalanced f-string"
    return "".join(cls), None


def s_vs_p(ref, pc):
    """Index of the first character where spec and tokenize disagree, or -1."""
    if len(ref) != len(pc):
        return 0
    for i, (s, p) in enumerate(zip(ref, pc)):
        if p == "F":
            if s not in "LS":
                return i
        elif s != p:
            return i
    return -1


# --------------------------------------------------------------------------
# C: the real function's result


def partition(text, stripped, literals):
    """K/X for every character of `text`, or (None, reason) if the pieces of the stripped text
    and the literals do not reproduce the text in order (not lossless)."""
    out = []
    pos = 0
    last = 0
    used = set()
    for m in LABEL.finditer(stripped):
        seg = stripped[last:m.start()]
        if text[pos:pos + len(seg)] != seg:
            return None, "kept text differs at %d" % pos
        out.append("K" * len(seg))
        pos += len(seg)
        lab = m.group()
        if lab not in literals:
            return None, "unknown label %s" % lab
        if lab in used:
            return None, "label used twice %s" % lab
        used.add(lab)
        lit = literals[lab]
        if text[pos:pos + len(lit)] != lit:
            return None, "literal differs at %d" % pos
        out.append("X" * len(lit))
        pos += len(lit)
        last = m.end()
    seg = stripped[last:]
    if text[pos:pos + len(seg)] != seg or pos + len(seg) != len(text):
        return None, "tail differs at %d" % pos
    out.append("K" * len(seg))
    if used != set(literals):
        return None, "labels never used: %s" % sorted(set(literals) - used)[:3]
    return "".join(out), None


def substitute_back(stripped, literals):
    """The two ways the users put literals back."""
    a = LABEL.sub(lambda m: literals.get(m.group(), m.group()), stripped)      # test suite / single pass
    b = stripped
    for key, value in literals.items():                                         # Inline.cython_inline
        b = b.replace(key, value)
    return a, b


def judge(text, ref, kx):
    """Demands on one case: every L/M character replaced, every C/P character kept.
    Returns list of (obs_class, first index)."""
    res = []
    leak = next((i for i, (r, k) in enumerate(zip(ref, kx)) if r in "LM" and k != "X"), -1)
    lost = next((i for i, (r, k) in enumerate(zip(ref, kx)) if r in "CP" and k != "K"), -1)
    if leak >= 0:
        res.append(("leak", leak))
    if lost >= 0:
        res.append(("code-lost", lost))
    return res


def ideal_strip(text, ref, prefix="__Pyx_L"):
    """What strip_string_literals returns if it follows the spec's partition exactly."""
    out, lits, n, i = [], {}, 0, 0
    while i < len(text):
        if ref[i] in "LM":
            j = i
            while j < len(text) and ref[j] in "LM":
                j += 1
            n += 1
            lab = "%s%d_" % (prefix, n)
            lits[lab] = text[i:j]
            out.append(lab)
            i = j
        else:
            out.append(text[i])
            i += 1
    return "".join(out), lits


# --------------------------------------------------------------------------
# child: runs on the snapshot, returns raw results only (all judging is done by the parent)

CHILD = r'''
import json, os, sys
from Cython.Build import Dependencies as D
from Cython import Utils
assert D.__file__.endswith(".py") and Utils.__file__.endswith(".py"), (D.__file__, Utils.__file__)
inp, outp, workdir = sys.argv[1:4]
real_strip = D.strip_string_literals
pd = getattr(D.parse_dependencies, "uncached", D.parse_dependencies)
n = 0
with open(inp) as f, open(outp, "w") as out:
    for line in f:
        rec = json.loads(line)
        text = rec["text"]
        res = {"id": rec["id"]}
        try:
            stripped, literals = real_strip(text)
            res["stripped"] = stripped; res["literals"] = literals
        except Exception as ex:
            res["exc"] = type(ex).__name__ + ": " + str(ex)[:200]
        if rec.get("prefix"):
            try:
                s2, l2 = real_strip(text, rec["prefix"])
                res["alt"] = [s2, l2]
            except Exception as ex:
                res["alt_exc"] = type(ex).__name__ + ": " + str(ex)[:200]
        if "ideal" in rec:      # user level: parse_dependencies on a real file
            path = os.path.join(workdir, "m%d.pyx" % rec["id"])
            with open(path, "w", newline="") as g:
                g.write(text)
            def run():
                try:
                    ci, inc, ext, _info = pd(path)
                    return {"cimports": sorted(ci), "includes": sorted(inc), "externs": sorted(ext)}
                except Exception as ex:
                    return {"exc": type(ex).__name__ + ": " + str(ex)[:200]}
            D.strip_string_literals = real_strip
            res["deps_real"] = run()
            ideal = rec["ideal"]
            D.strip_string_literals = lambda code, prefix="__Pyx_L", _i=ideal: (_i[0], _i[1])
            res["deps_ideal"] = run()
            D.strip_string_literals = real_strip
            os.unlink(path)
        out.write(json.dumps(res) + "\n")
        n += 1
print("@@" + json.dumps({"done": n}))
'''
