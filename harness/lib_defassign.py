"""C21 helpers: numbering and rendering of spec/DefAssign.tla programs as Python functions,
the pure-Python run-time module the rendered code calls, the child driver that replays
path words, and static (spec-side) features of programs used in case descriptors."""
import json
import os

import core

COMPOUND = ("if", "while", "for", "try", "with", "match")
VNAMES = {1: "a", 2: "b", 3: "c"}
EXC_NAMES = {"V": "ValueError", "U": "UnboundLocalError", "N": "NameError"}
HCLASS = {"V": "ValueError", "N": "NameError"}

RT_NAME = "c21rt"
RT_SOURCE = r'''
"""run-time support for rendered C21 programs (never compiled)"""
import os
W = []          # remaining choices of the path word
LOG = []        # [id, value] events
_fd = None      # set by the driver: every event is also written through to a trace file (survives a crash)

class Obj(object):
    __slots__ = ("k",)
    def __init__(self, k): self.k = k

def reset(word):
    del LOG[:]
    W[:] = word

def _ev(p, v):
    LOG.append([p, v])
    if _fd is not None:
        os.write(_fd, ("%d %d\n" % (p, v)).encode())

def T():
    return W.pop(0) if W else 0

def O(k):
    return Obj(k)

def enc(x):
    if type(x) is int: return x
    if type(x) is float: return int(x) if x == x and abs(x) < 1e300 else -7
    if type(x) is str: return int(x) if x.isdigit() else -8
    if type(x) is Obj: return x.k
    if isinstance(x, UnboundLocalError): return 9002
    if isinstance(x, NameError): return 9003
    if isinstance(x, ValueError): return 9001
    return -9

def L(p, x):
    _ev(p, enc(x))

def M(p):
    _ev(p, 0)

def R(p):
    if T():
        raise ValueError(p)

class I(object):
    def __init__(self, p): self.p = p
    def __iter__(self): return self
    def __next__(self):
        if T(): return self.p
        raise StopIteration

def K(p):
    return (p,) if T() else None

class CM(object):
    def __init__(self, p, sup): self.p = p; self.sup = sup
    def __enter__(self): return self.p
    def __exit__(self, t, v, tb): return bool(self.sup and t is not None)
'''

# ------------------------------------------------------------------ programs


def walk(blk):
    """all statements, pre-order (same order as Flat in the spec)"""
    for s in blk:
        yield s
        if s["t"] in COMPOUND:
            yield from walk(s["a"])
            for h in s["hs"]:
                yield from walk(h["a"])
            yield from walk(s["b"])
            yield from walk(s["f"])


def number(prog):
    """pre-order numbering 1.. ; returns a deep copy"""
    prog = json.loads(json.dumps(prog))
    for n, s in enumerate(walk(prog), 1):
        s["id"] = n
    return prog


def canon(prog):
    return json.dumps(prog, sort_keys=True, separators=(",", ":"))


def kinds_of(prog):
    ks = set()
    for s in walk(prog):
        t = s["t"]
        if t == "try":
            ks.add("try")
            if s["g"]:
                ks.add("finally")
            for h in s["hs"]:
                ks.add("except-" + h["c"])
                if h["v"]:
                    ks.add("except-as")
        elif t == "with":
            ks.add("with-" + s["c"])
            if s["v"]:
                ks.add("with-as")
        elif t == "match":
            ks.add("match" + ("-guard" if s["g"] else "") + ("-default" if s["d"] else ""))
        else:
            ks.add(t)
    return ks


def shape_key(prog):
    """signature for stratified selection: statement kinds + where the uses (and deletions) stand"""
    uses = []

    def blk(b, where):
        seen_compound = False
        for s in b:
            t = s["t"]
            if t in ("read", "del", "cread", "cex", "comp"):
                uses.append("%s@%s%s" % (t, where, "+" if seen_compound else ""))
            if t in COMPOUND:
                seen_compound = True
                blk(s["a"], t + ".a")
                for h in s["hs"]:
                    blk(h["a"], t + ".h")
                blk(s["b"], t + ".b")
                blk(s["f"], t + ".f")
    blk(prog, "top")
    return "+".join(sorted(kinds_of(prog))) + "|" + ",".join(sorted(uses))


def cell_vars(prog):
    return sorted({s["v"] for s in walk(prog) if s["t"] == "cread"})


def binders(prog, v):
    """kinds of statements that bind v"""
    out = set()
    for s in walk(prog):
        if s["t"] in ("asg", "wal", "for", "with", "match") and s["v"] == v:
            out.add(s["t"])
        for h in s["hs"]:
            if h["v"] == v:
                out.add("except-as")
    return out


def value_expr(kind, k):
    return {"i": "%d" % k, "f": "%d.0" % k, "s": '"%d"' % k, "o": "O(%d)" % k}[kind]


class Rendered(object):
    def __init__(self):
        self.lines = []
        self.use_line = {}      # statement id -> (line offset within the function, variable name) of its use of a name
        self.stmt_line = {}     # statement id -> line offset of its first line
        self.bind_line = {}     # statement id (try id * 100 + j for an `as` name) -> (line offset, variable name) of the bound name


def render(prog, fname, vkinds, bare_star=True):
    """prog: numbered program; vkinds: {var: 'i'|'f'|'s'|'o'}.  Returns Rendered (lines of one def)."""
    R = Rendered()
    out = R.lines
    out.append("def %s():" % fname)
    for v in cell_vars(prog):
        out.append("    def g_%s(): return %s" % (VNAMES[v], VNAMES[v]))

    def block(blk, ind, mandatory=True):
        if not blk:
            if mandatory:
                out.append(ind + "pass")
            return
        for s in blk:
            stmt(s, ind)

    def stmt(s, ind):
        t, k = s["t"], s["id"]
        v = VNAMES.get(s["v"])
        R.stmt_line[k] = len(out)
        if t == "asg":
            R.bind_line[k] = (len(out), v)
            out.append("%s%s = %s" % (ind, v, value_expr(vkinds[s["v"]], k)))
        elif t == "del":
            R.use_line[k] = (len(out), v)
            out.append("%sdel %s" % (ind, v))
            out.append("%sM(%d)" % (ind, k))
        elif t == "read":
            R.use_line[k] = (len(out), v)
            out.append("%sL(%d, %s)" % (ind, k, v))
        elif t == "cread":
            out.append("%sL(%d, g_%s())" % (ind, k, v))
        elif t == "wal":
            R.bind_line[k] = (len(out), v)
            out.append("%sT() and (%s := %s)" % (ind, v, value_expr(vkinds[s["v"]], k)))
        elif t == "cex":
            R.use_line[k] = (len(out), v)
            out.append("%sL(%d, %s) if T() else None" % (ind, k, v))
        elif t == "comp":
            r = VNAMES[s["r"]]
            if s["r"] != s["v"]:
                R.use_line[k] = (len(out), r)
            out.append("%s[L(%d, %s) for %s in I(%d)]" % (ind, k, r, v, k))
        elif t == "mr":
            out.append("%sR(%d)" % (ind, k))
        elif t == "raise":
            out.append("%sraise ValueError(%d)" % (ind, k))
        elif t == "ret":
            out.append('%sreturn "ret"' % ind)
        elif t == "brk":
            out.append("%sbreak" % ind)
        elif t == "cnt":
            out.append("%scontinue" % ind)
        elif t == "nop":
            out.append("%spass" % ind)
        elif t == "if":
            out.append("%sif T():" % ind)
            block(s["a"], ind + "    ")
            if s["b"]:
                out.append("%selse:" % ind)
                block(s["b"], ind + "    ")
        elif t in ("while", "for"):
            if t == "for":
                R.bind_line[k] = (len(out), v)
            out.append(("%swhile T():" % ind) if t == "while" else ("%sfor %s in I(%d):" % (ind, v, k)))
            block(s["a"], ind + "    ")
            if s["b"]:
                out.append("%selse:" % ind)
                block(s["b"], ind + "    ")
        elif t == "with":
            sup = "True" if s["c"] == "sup" else "False"
            if v:
                R.bind_line[k] = (len(out), v)
            out.append("%swith CM(%d, %s)%s:" % (ind, k, sup, (" as " + v) if v else ""))
            block(s["a"], ind + "    ")
        elif t == "match":
            out.append("%smatch K(%d):" % (ind, k))
            R.bind_line[k] = (len(out), v)
            out.append("%s    case (%s,)%s:" % (ind, v, " if T()" if s["g"] else ""))
            block(s["a"], ind + "        ")
            if s["d"]:
                out.append("%s    case _:" % ind)
                block(s["b"], ind + "        ")
        elif t == "try":
            out.append("%stry:" % ind)
            block(s["a"], ind + "    ")
            for j, h in enumerate(s["hs"], 1):
                hv = VNAMES.get(h["v"])
                if h["c"] == "*":
                    cls = "Exception" if (hv or not bare_star) else ""
                else:
                    cls = HCLASS[h["c"]]
                if hv:
                    R.bind_line[k * 100 + j] = (len(out), hv)
                out.append("%sexcept%s%s:" % (ind, (" " + cls) if cls else "", (" as " + hv) if hv else ""))
                out.append("%s    M(%d)" % (ind, k * 100 + j))
                block(h["a"], ind + "    ", mandatory=False)
            if s["b"]:
                out.append("%selse:" % ind)
                block(s["b"], ind + "    ")
            if s["g"]:
                out.append("%sfinally:" % ind)
                block(s["f"], ind + "    ")
        else:
            raise ValueError(t)

    block(prog, "    ")
    return R


MODULE_HEAD = ["# cython: language_level=3", "from %s import T, R, I, K, CM, L, M, O" % RT_NAME, ""]


def module_source(funcs):
    """funcs: list of (fname, Rendered).  Returns (text, {fname: first line number (1-based)})"""
    lines = list(MODULE_HEAD)
    first = {}
    for fname, r in funcs:
        first[fname] = len(lines) + 1
        lines.extend(r.lines)
        lines.append("")
    return "\n".join(lines) + "\n", first


# ------------------------------------------------------------------ replay driver (child process)

DRIVER = r'''
import sys, os, json, signal, importlib, importlib.util
moddir, modname, mode, infile, outfile, start = sys.argv[1:7]
start = int(start)
sys.path.insert(0, moddir)
import c21rt as rt
if mode == "py":
    spec = importlib.util.spec_from_file_location(modname + "_py", os.path.join(moddir, modname + "_src.py"))
    mod = importlib.util.module_from_spec(spec); spec.loader.exec_module(mod)
else:
    mod = importlib.import_module(modname)
    if not mod.__file__.endswith(".so"):
        print("@@" + json.dumps({"fatal": "not an extension: %s" % mod.__file__})); sys.exit(3)
calls = json.load(open(infile))
tracefile = outfile + ".trace"

def work(first):
    # runs in a forked worker: one result line per call, every event also written through to the trace file
    fd = os.open(outfile, os.O_WRONLY | os.O_CREAT | os.O_APPEND)
    rt._fd = os.open(tracefile, os.O_WRONLY | os.O_CREAT | os.O_TRUNC)
    for i in range(first, len(calls)):
        fn, word = calls[i]
        os.write(rt._fd, ("#%d\n" % i).encode())
        rt.reset(word)
        signal.alarm(20)
        try:
            r = getattr(mod, fn)()
            out = "ret" if r == "ret" else ("end" if r is None else "value:%r" % (r,))
        except BaseException as e:
            out = "E:" + type(e).__name__
        signal.alarm(0)
        os.write(fd, (json.dumps([i, [list(rt.LOG), out]]) + "\n").encode())

def done_upto():
    n = -1
    if os.path.exists(outfile):
        with open(outfile) as f:
            for line in f:
                try:
                    n = max(n, json.loads(line)[0])
                except ValueError:
                    pass
    return n

def traced(idx):
    log, on = [], False
    if os.path.exists(tracefile):
        with open(tracefile) as f:
            for line in f:
                if line.startswith("#"):
                    on = line.strip() == "#%d" % idx
                elif on:
                    p = line.split()
                    if len(p) == 2:
                        log.append([int(p[0]), int(p[1])])
    return log

# supervisor: a worker that dies (signal) costs one fork, not a new interpreter
first, crashes = start, 0
while first < len(calls):
    sys.stdout.flush()
    pid = os.fork()
    if pid == 0:
        try:
            work(first)
        finally:
            os._exit(0)
    _, status = os.waitpid(pid, 0)
    if os.WIFEXITED(status) and os.WEXITSTATUS(status) == 0 and done_upto() >= len(calls) - 1:
        break
    bad = max(done_upto(), first - 1) + 1
    if bad >= len(calls):
        break
    sig = os.WTERMSIG(status) if os.WIFSIGNALED(status) else 0
    what = "TIMEOUT" if sig == signal.SIGALRM else ("CRASH:%d" % sig if sig else "CRASH:exit%d" % os.WEXITSTATUS(status))
    with open(outfile, "a") as f:
        f.write(json.dumps([bad, [traced(bad), what]]) + "\n")
    crashes += 1
    first = bad + 1
print("@@" + json.dumps({"done": len(calls), "crashes": crashes}))
'''


def run_paths(moddir, modname, mode, calls, tag, timeout=900):
    """calls: [[fname, word], ...] -> list of [log, out]; out = "CRASH:<sig>" / "TIMEOUT" when the child died
    (log then holds the events traced up to the crash)."""
    inf = os.path.join(moddir, "%s_%s_in.json" % (modname, tag))
    outf = os.path.join(moddir, "%s_%s_out.ndjson" % (modname, tag))
    with open(inf, "w") as f:
        json.dump(calls, f)
    if os.path.exists(outf):
        os.unlink(outf)
    obs = [None] * len(calls)
    start, crashes = 0, 0
    while start < len(calls):
        ch = core.run_child(DRIVER, [moddir, modname, mode, inf, outf, str(start)], timeout=timeout, mem_mb=4096)
        if os.path.exists(outf):
            with open(outf) as f:
                for line in f:
                    try:
                        i, r = json.loads(line)
                    except ValueError:
                        continue
                    obs[i] = r
        fatal = [j for j in ch.json_lines() if "fatal" in j]
        if fatal:
            core.die("C21 driver: %s" % fatal[0]["fatal"])
        if ch.rc == 0 and ch.json_lines():
            break
        nxt = start
        while nxt < len(calls) and obs[nxt] is not None:
            nxt += 1
        if nxt >= len(calls):
            break
        if ch.timed_out:
            o = "TIMEOUT"
        elif ch.crashed:
            o = "CRASH:%d" % ch.signal
        else:
            o = "CRASH:exit%s" % ch.rc
            if "Error" in ch.err and crashes == 0 and nxt == 0 and not ch.crashed:
                core.die("C21 driver failed: %s" % ch.err[-1500:])
        log = read_trace(outf + ".trace", nxt) if ch.crashed else []
        obs[nxt] = [log, o]
        core.CRASH_LOGS.append({"module": modname, "call": calls[nxt], "obs": o, "stderr": ch.err[-1500:]})
        crashes += 1
        if crashes > 5000:
            core.die("C21: too many crashes")
        start = nxt + 1
    for c, o in zip(calls, obs):
        if o is not None and isinstance(o[1], str) and (o[1].startswith("CRASH") or o[1] == "TIMEOUT") and len(core.CRASH_LOGS) < 200:
            core.CRASH_LOGS.append({"module": modname, "call": c, "obs": o[1]})
    return obs


def read_trace(path, idx):
    """events that call number idx wrote through before the child died"""
    log, on = [], False
    if os.path.exists(path):
        with open(path) as f:
            for line in f:
                if line.startswith("#"):
                    on = line.strip() == "#%d" % idx
                elif on:
                    p = line.split()
                    if len(p) == 2:
                        log.append([int(p[0]), int(p[1])])
    return log
