"""C15 helpers: generated .pyx modules, mapping of the scaled model (spec/SeqIndex.tla) to real
values and containers, expected observations, the CPython oracle (P)."""

SMIN, SMAX, BIGI = -128, 127, 300
NONE, ABSENT, ONONE, OFLOAT, OSTR, OFALSE, OTRUE = 100000, 20000, 20001, 20002, 20003, 20004, 20005
RMIN, RMAX = -(1 << 63), (1 << 63) - 1

DECL = {"list": "L", "tuple": "T", "str": "S", "bytes": "B", "bytearray": "A"}
DECL_CTYPE = {"L": "list ", "T": "tuple ", "S": "str ", "B": "bytes ", "A": "bytearray ", "O": ""}
MUTABLE_DECLS = ("L", "A", "O")

#          tag      C type            bits signed  model type
RTYPES = [("ssize", "Py_ssize_t", 64, True, "ssize"), ("llong", "long long", 64, True, "ssize"),
          ("int", "int", 32, True, "snarrow"), ("schar", "signed char", 8, True, "snarrow"),
          ("uint", "unsigned int", 32, False, "unarrow"), ("uchar", "unsigned char", 8, False, "unarrow"),
          ("size", "size_t", 64, False, "usize")]
MODEL_W = {"ssize": (8, True), "snarrow": (6, True), "unarrow": (6, False), "usize": (8, False), "const": (8, True)}
RT_BY_MODEL = {}
for _r in RTYPES:
    RT_BY_MODEL.setdefault(_r[4], []).append(_r)

CONST_SMALL = list(range(-10, 11))
CONST_EXT = [("pmin", RMIN), ("pmin1", RMIN + 1), ("pmax1", RMAX - 1), ("pmax", RMAX)]
SLICE_CONSTS = [None, -3, -1, 0, 1, 2]
X_SHAPES = [(None, None, -1), (None, None, 2), (1, None, 2), (None, -1, 1), (-1, None, -2), (None, None, 1), (2, 0, -1), (None, None, -3)]


def kname(k):
    if k is None:
        return "n"
    return ("m%d" % -k) if k < 0 else "p%d" % k


def ktext(k):
    return "" if k is None else str(k)


def trange(bits, signed):
    return (-(1 << (bits - 1)), (1 << (bits - 1)) - 1) if signed else (0, (1 << bits) - 1)


def decl_of(c):
    return DECL[c["kind"]] if c["decl"] == "typed" else "O"


# --------------------------------------------------------------------------- source generation
HEADER = "# cython: language_level=3\ncimport cython\n\n"


def gen_index_module(decls):
    src = [HEADER]
    for d in decls:
        ct = DECL_CTYPE[d]
        for tag, ctype in [("obj", "")] + [(r[0], r[1] + " ") for r in RTYPES]:
            src.append("def get_%s_%s(%sx, %si):\n    return x[i]\n" % (d, tag, ct, ctype))
            if d in MUTABLE_DECLS:
                src.append("def set_%s_%s(%sx, %si, v):\n    x[i] = v\n" % (d, tag, ct, ctype))
                src.append("def del_%s_%s(%sx, %si):\n    del x[i]\n" % (d, tag, ct, ctype))
        for nm, k in [(kname(k), k) for k in CONST_SMALL] + CONST_EXT:
            src.append("def getk_%s_%s(%sx):\n    return x[%d]\n" % (d, nm, ct, k))
            if d in MUTABLE_DECLS:
                src.append("def setk_%s_%s(%sx, v):\n    x[%d] = v\n" % (d, nm, ct, k))
                src.append("def delk_%s_%s(%sx):\n    del x[%d]\n" % (d, nm, ct, k))
    return "\n".join(src)


_FORM_T = {"a": "", "c": "Py_ssize_t ", "o": "", "i": "int "}


def gen_slice_module(decls):
    src = [HEADER]
    for d in decls:
        ct = DECL_CTYPE[d]
        for fs in "acoi":
            for fe in "acoi":
                sl = "%s:%s" % ("" if fs == "a" else "a", "" if fe == "a" else "b")
                sig = "%sx, %sa, %sb" % (ct, _FORM_T[fs], _FORM_T[fe])
                src.append("def sget_%s_%s%s(%s):\n    return x[%s]\n" % (d, fs, fe, sig, sl))
                if d in MUTABLE_DECLS:
                    src.append("def sset_%s_%s%s(%s, v):\n    x[%s] = v\n" % (d, fs, fe, sig, sl))
                    src.append("def sdel_%s_%s%s(%s):\n    del x[%s]\n" % (d, fs, fe, sig, sl))
    return "\n".join(src)


def gen_kslice_module(decls):
    src = [HEADER]
    for d in decls:
        ct = DECL_CTYPE[d]
        for ka in SLICE_CONSTS:
            for kb in SLICE_CONSTS:
                nm = "%s_%s_%s" % (d, kname(ka), kname(kb))
                sl = "%s:%s" % (ktext(ka), ktext(kb))
                src.append("def sgetk_%s(%sx):\n    return x[%s]\n" % (nm, ct, sl))
                if d in MUTABLE_DECLS:
                    src.append("def ssetk_%s(%sx, v):\n    x[%s] = v\n" % (nm, ct, sl))
                    src.append("def sdelk_%s(%sx):\n    del x[%s]\n" % (nm, ct, sl))
    return "\n".join(src)


def gen_xslice_module():
    src = [HEADER]
    for d, ct in DECL_CTYPE.items():
        for f, t in (("o", ""), ("c", "Py_ssize_t ")):
            sig = "%sx, %sa, %sb, %sc" % (ct, t, t, t)
            src.append("def xget_%s_%s(%s):\n    return x[a:b:c]\n" % (d, f, sig))
            if d in MUTABLE_DECLS:
                src.append("def xset_%s_%s(%s, v):\n    x[a:b:c] = v\n" % (d, f, sig))
                src.append("def xdel_%s_%s(%s):\n    del x[a:b:c]\n" % (d, f, sig))
        for j, (a, b, c) in enumerate(X_SHAPES):
            sl = "%s:%s:%s" % (ktext(a), ktext(b), ktext(c))
            src.append("def xgetk_%s_%d(%sx):\n    return x[%s]\n" % (d, j, ct, sl))
            if d in MUTABLE_DECLS:
                src.append("def xsetk_%s_%d(%sx, v):\n    x[%s] = v\n" % (d, j, ct, sl))
                src.append("def xdelk_%s_%d(%sx):\n    del x[%s]\n" % (d, j, ct, sl))
    return "\n".join(src)


PRELUDE = '''
class Ix:
    def __init__(self, v): self.v = v
    def __index__(self): return self.v
def M(fn, x, *a):
    try:
        globals()[fn](x, *a)
        r = None
    except BaseException as e:
        r = "E:" + type(e).__name__
    return [r, x]
'''


class Ix(object):
    def __init__(self, v):
        self.v = v

    def __index__(self):
        return self.v


GROUP_A, GROUP_B = ["L", "T", "S"], ["B", "A", "O"]


def modules():
    """seven small modules (two halves by declaration) so that the C compiles run in parallel"""
    return {"c15ia": gen_index_module(GROUP_A), "c15ib": gen_index_module(GROUP_B),
            "c15sa": gen_slice_module(GROUP_A), "c15sb": gen_slice_module(GROUP_B),
            "c15ka": gen_kslice_module(GROUP_A), "c15kb": gen_kslice_module(GROUP_B),
            "c15xs": gen_xslice_module()}


def module_of(family, d):
    """family: 'i' index, 's' slice, 'k' constant slice, 'x' extended slice ; d: declaration letter"""
    return "c15xs" if family == "x" else "c15%s%s" % (family, "a" if d in GROUP_A else "b")


# --------------------------------------------------------------------------- scaled model -> real values
def real_value(model_type, v, bits=64, signed=True):
    """Image of the model value v (of the scaled type) in the real type: small values are themselves,
    values next to a bound of the scaled type keep their distance to the bound of the real type."""
    if abs(v) <= 12:
        return v
    if model_type == "obj":
        anchors = [(SMIN, RMIN), (SMAX, RMAX), (-BIGI, -(1 << 70)), (BIGI, 1 << 70)]
    else:
        w, s = MODEL_W[model_type]
        mlo, mhi = trange(w, s)
        rlo, rhi = trange(bits, signed)
        anchors = [(mlo, rlo), (mhi, rhi)]
        if bits == 64 and not signed:
            anchors.append((SMAX, RMAX))
    a = min(anchors, key=lambda t: abs(v - t[0]))
    if abs(v - a[0]) > 3:
        raise ValueError("model value %r of %s has no anchor" % (v, model_type))
    return a[1] + (v - a[0])


def vclass(v):
    return "small" if abs(v) <= 12 else ("big" if not (SMIN <= v <= SMAX) else "bound")


# --------------------------------------------------------------------------- containers, observations
STR_BASE = {"ascii": ord("a"), "ucs2": 0x0400, "ucs4": 0x10400}
NEW_OBJ = [777, 778, 779]
NEW_BYTE = [200, 201, 202]


def elem(kind, ident, flavor="ascii"):
    if ident >= 10:
        k = ident - 10
        return NEW_OBJ[k] if kind in ("list", "tuple") else (NEW_BYTE[k] if kind in ("bytes", "bytearray") else chr(STR_BASE[flavor] + 20 + k))
    if kind in ("list", "tuple"):
        return 100 + ident
    if kind == "str":
        return chr(STR_BASE[flavor] + ident)
    return 65 + ident


def make(kind, ids, flavor="ascii"):
    es = [elem(kind, i, flavor) for i in ids]
    if kind == "list":
        return es
    if kind == "tuple":
        return tuple(es)
    if kind == "str":
        return "".join(es)
    return bytes(es) if kind == "bytes" else bytearray(es)


def container(kind, n, flavor="ascii"):
    return None if n < 0 else make(kind, range(n), flavor)


def new_value(kind, flavor="ascii"):
    return elem(kind, 10, flavor)


def new_values(kind, m, flavor="ascii", rhs="same"):
    """the right-hand side of a slice assignment: of the container's own type, or another iterable"""
    v = make(kind, range(10, 10 + m), flavor)
    if rhs == "same":
        return v
    return {"list": tuple, "tuple": list, "str": list, "bytes": bytearray, "bytearray": bytes}[kind](v)


def enc(v):
    """the driver's result encoding (harness/calls.py)"""
    if v is None or isinstance(v, str):
        return v
    if isinstance(v, bool):
        return ["bool", v]
    if type(v) is int:
        return v if abs(v) < 2 ** 53 else {"big": str(v)}
    if type(v) is bytes:
        return ["b", list(v)]
    if type(v) is bytearray:
        return ["ba", list(v)]
    if type(v) is tuple:
        return ["t"] + [enc(x) for x in v]
    if type(v) is list:
        return ["l"] + [enc(x) for x in v]
    return ["o", type(v).__name__, repr(v)[:200]]


def arg(v):
    """argument encoding for calls.run_calls"""
    if v is None or isinstance(v, (bool, str)):
        return v
    if isinstance(v, Ix):
        return {"py": "Ix(%d)" % v.v}
    if isinstance(v, float):
        return {"f": v.hex()}
    if type(v) is int:
        return v if abs(v) < 2 ** 53 else {"big": str(v)}
    if type(v) is bytes:
        return {"b": list(v)}
    if type(v) is bytearray:
        return {"ba": list(v)}
    if type(v) is tuple:
        return {"t": [arg(x) for x in v]}
    if type(v) is list:
        return [arg(x) for x in v]
    raise TypeError(v)


_IDS = {c: i for i, c in enumerate("0123456789NMK")}


def expected_obs(outcome, op, kind, n, flavor="ascii"):
    """spec outcome string -> the observation the driver must report"""
    orig = container(kind, n, flavor)
    if outcome.startswith("!"):
        e = "E:" + outcome[1:]
        return e if op == "get" else ["l", e, enc(orig)]
    if outcome.startswith("="):
        return enc(elem(kind, _IDS[outcome[1]], flavor))
    if outcome.startswith(":"):
        res = make(kind, [_IDS[ch] for ch in outcome[1:]], flavor)
        return enc(res) if op == "get" else ["l", None, enc(res)]
    raise ValueError(outcome)


def oracle(op, x, key, val=None):
    """P: CPython on the same operation (x is a fresh container)"""
    try:
        if op == "get":
            return enc(x[key])
        if op == "set":
            x[key] = val
        else:
            del x[key]
        r = None
    except Exception as e:
        if op == "get":
            return "E:" + type(e).__name__
        r = "E:" + type(e).__name__
    return ["l", r, enc(x)]


def obs_class(got, want, op):
    if isinstance(got, str) and (got.startswith("CRASH") or got == "TIMEOUT"):
        return "crash"
    if got is None:
        return "not-run"
    wrapped = op != "get"
    g = got[1] if wrapped and isinstance(got, list) and len(got) == 3 else got
    w = want[1] if wrapped else want
    if isinstance(g, str) and g.startswith("E:"):
        return "exception:" + g[2:]
    if isinstance(w, str) and w.startswith("E:"):
        return "no-exception"
    return "wrong-value"
