"""C24 helpers: signatures of spec/ArgBind.tla rendered as Cython / Python source, and the
child process that replays TLC-published (signature, call) cases through every call path.

A signature is the tuple (npo, npk, ndef, star, ko, ss) of the spec; a published case is the
JSON array  [npo, npk, ndef, star, ko, ss, np, [[name, kind], ..], ok, cls, vals, args, kw].
"""
import itertools
import json

PO = ["pa", "pb", "pc", "pd", "pe", "pf"]
PK = ["xa", "xb", "xc", "xd", "xe", "xf"]
KO = ["ka", "kb", "kc", "kd", "ke", "kf"]


def sid(s):
    npo, npk, ndef, star, ko, ss = s
    return "%d%d%d%s_%s_%s" % (npo, npk, ndef, "a" if star else "n",
                               "".join("d" if d else "r" for d in ko) or "o", "k" if ss else "n")


def sig_of_case(c):
    return (c[0], c[1], c[2], bool(c[3]), tuple(bool(x) for x in c[4]), bool(c[5]))


def all_sigs(max_po, max_pk, max_ko, fix_po=-1):
    """The set `Sigs` of the spec, enumerated independently (the harness cross-checks it against
    the signatures TLC actually published)."""
    out = []
    for npo in range(max_po + 1):
        if fix_po >= 0 and npo != fix_po:
            continue
        for npk in range(max_pk + 1):
            for ndef in range(npo + npk + 1):
                for star in (False, True):
                    for nko in range(max_ko + 1):
                        for ko in itertools.product((False, True), repeat=nko):
                            for ss in (False, True):
                                out.append((npo, npk, ndef, star, ko, ss))
    return out


def params(s, with_self=False):
    """-> (parameter list text, return expression).  Default of the i-th declared parameter is
    200 + i (DefVal of the spec)."""
    npo, npk, ndef, star, ko, ss = s
    n = npo + npk
    out = ["self"] if with_self else []
    names = []
    for i in range(1, n + 1):
        nm = PO[i - 1] if i <= npo else PK[i - 1 - npo]
        names.append(nm)
        out.append(nm + ("=%d" % (200 + i) if i > n - ndef else ""))
        if i == npo:
            out.append("/")
    if star:
        out.append("*args")
    elif ko:
        out.append("*")
    for j, d in enumerate(ko):
        names.append(KO[j])
        out.append(KO[j] + ("=%d" % (200 + n + j + 1) if d else ""))
    if ss:
        out.append("**kw")
    ret = "((%s), %s, %s)" % ("".join(x + ", " for x in names), "args" if star else "None", "kw" if ss else "None")
    return ", ".join(out), ret


def cpdef_ok(s):
    """cpdef functions take neither positional-only nor keyword-only parameters, nor * / **."""
    return s[0] == 0 and not s[3] and not s[4] and not s[5]


def source_funcs(sigs):
    """module-level `def` per signature (+ `cpdef` where the grammar allows)."""
    out = []
    for s in sigs:
        p, r = params(s)
        out.append("def f_%s(%s):\n    return %s\n" % (sid(s), p, r))
        if cpdef_ok(s):
            out.append("cpdef c_%s(%s):\n    return %s\n" % (sid(s), p, r))
    return "\n".join(out)


def source_methods(sigs):
    """one Python class and one cdef class carrying a method per signature."""
    py = ["class PM:"]
    cy = ["cdef class CM:"]
    for s in sigs:
        p, r = params(s, True)
        py.append("    def m_%s(%s):\n        return %s" % (sid(s), p, r))
        cy.append("    def m_%s(%s):\n        return %s" % (sid(s), p, r))
        if cpdef_ok(s):
            cy.append("    cpdef cm_%s(%s):\n        return %s" % (sid(s), p, r))
    return "\n".join(py) + "\n\n" + "\n".join(cy) + "\n"


def source_callables(sigs):
    """one cdef class per signature whose __call__ (tp_call slot: args tuple + keyword dict) has it."""
    out = []
    for s in sigs:
        p, r = params(s, True)
        out.append("cdef class K_%s:\n    def __call__(%s):\n        return %s\n" % (sid(s), p, r))
    return "\n".join(out)


def as_python(src):
    """the same source for plain CPython (P)"""
    return src.replace("cdef class ", "class ").replace("cpdef ", "def ")


# ---------------------------------------------------------------------------
# the replay child

CHILD = r'''
import json, sys, os, importlib, functools, types
mode, metaf, casesf, outf, start, careful = sys.argv[1], sys.argv[2], sys.argv[3], sys.argv[4], int(sys.argv[5]), int(sys.argv[6])
meta = json.load(open(metaf))
FUNCS, METHS, CALLS = {}, {}, {}
for kind, d, name in meta["mods"]:
    if mode == "ext":
        if d not in sys.path:
            sys.path.insert(0, d)
        m = importlib.import_module(name)
        if not m.__file__.endswith(".so"):
            print("@@" + json.dumps({"fatal": "not an extension: %s" % m.__file__})); sys.exit(3)
    else:
        m = types.ModuleType(name)
        exec(compile(open(os.path.join(d, name + "_py.py")).read(), name + "_py.py", "exec"), m.__dict__)
    if kind == "func":
        FUNCS.update({k: v for k, v in vars(m).items() if k[:2] in ("f_", "c_")})
    elif kind == "meth":
        pm, cm = m.PM(), m.CM()
        for k in dir(m.CM):
            if k.startswith("m_"):
                METHS[k[2:]] = (pm, cm, m.CM)
    else:
        CALLS.update({k: v for k, v in vars(m).items() if k.startswith("K_")})
aak_off = bool(meta.get("aak_off"))
paths_wanted = set(meta["paths"])

class S(str):
    __slots__ = ()

def mk(name, kind):
    if kind == "lit":
        return sys.intern(name)
    if kind == "rt":
        return "".join([name[:1], name[1:]])
    if kind == "sub":
        return S(name)
    return 7            # a non-str key

for _n in ("pa", "xa", "ka", "zz"):
    assert mk(_n, "rt") is not sys.intern(_n) and mk(_n, "rt") == _n and type(mk(_n, "rt")) is str and mk(_n, "lit") is sys.intern(_n)

def norm(r):
    kw = r[2]
    if kw is not None:
        kw = [(str(k), type(k).__name__, v) for k, v in kw.items()]
    return (r[0], r[1], kw)

def sid(c):
    return "%d%d%d%s_%s_%s" % (c[0], c[1], c[2], "a" if c[3] else "n", "".join("d" if d else "r" for d in c[4]) or "o", "k" if c[5] else "n")

_lit = {}
def literal(np, names):
    key = (np, names)
    f = _lit.get(key)
    if f is None:
        args = [str(i) for i in range(1, np + 1)] + ["%s=%d" % (n, 101 + j) for j, n in enumerate(names)]
        f = _lit[key] = eval("lambda f: f(%s)" % ", ".join(args))
    return f

_tab = {}
def table(c):
    """[(path, callable taking (pos, kwd))] for the signature of case c"""
    s = sid(c)
    t = _tab.get(s)
    if t is not None:
        return t
    t = []
    f = FUNCS.get("f_" + s)
    if f is not None:
        t.append(("func", lambda pos, kwd, f=f: f(*pos, **kwd)))
        tc = type(f).__call__
        t.append(("tpcall", lambda pos, kwd, f=f, tc=tc: tc(f, *pos, **kwd)))
        t.append(("partial", lambda pos, kwd, f=f: functools.partial(f, *pos)(**kwd)))
        t.append(("literal", f))
        cp = FUNCS.get("c_" + s)
        if cp is not None:
            t.append(("cpdef", lambda pos, kwd, f=cp: f(*pos, **kwd)))
    if s in METHS:
        PM, CM, CMT = METHS[s]
        n = "m_" + s
        t.append(("pymeth", lambda pos, kwd, n=n, PM=PM: getattr(PM, n)(*pos, **kwd)))
        t.append(("cmeth", lambda pos, kwd, n=n, CM=CM: getattr(CM, n)(*pos, **kwd)))
        um = getattr(CMT, n)
        t.append(("cunbound", lambda pos, kwd, um=um, CM=CM: um(CM, *pos, **kwd)))
        if hasattr(CMT, "cm_" + s):
            n2 = "cm_" + s
            t.append(("cpmeth", lambda pos, kwd, n2=n2, CM=CM: getattr(CM, n2)(*pos, **kwd)))
    if ("K_" + s) in CALLS:
        ko = CALLS["K_" + s]()
        t.append(("ccall", lambda pos, kwd, ko=ko: ko(*pos, **kwd)))
    t = [(p, f) for p, f in t if p in paths_wanted]
    _tab[s] = t
    return t

# always_allow_keywords=False: "uses the METH_NOARGS and METH_O signatures when constructing functions/methods
# which take zero or one arguments ... disallow the use of keywords" (documented): such a function must raise
# TypeError for every call that carries a keyword.
METH_O_PATHS = set(meta.get("meth_o_paths", []))
def one_arg(c):
    return c[0] + c[1] == 1 and c[2] == 0 and not c[3] and not c[4] and not c[5]

POS = [tuple(range(1, n + 1)) for n in range(0, 40)]
out = open(outf, "a")
stats = {}
ncase = 0
idx = -1
with open(casesf) as cf:
    for line in cf:
        idx += 1
        if idx < start:
            continue
        if careful:
            if idx >= start + careful:
                break
            out.write(json.dumps({"at": idx}) + "\n"); out.flush()
        elif (idx - start) % 2000 == 0:
            out.write(json.dumps({"p": idx}) + "\n"); out.flush()
        c = json.loads(line)
        np_, kws = c[6], c[7]
        pos = POS[np_]
        kinds = [k for _, k in kws]
        if c[8]:
            want = (tuple(c[10]), tuple(c[11]) if c[3] else None,
                    [(n, "S" if k == "sub" else "str", v) for n, k, v in c[12]] if c[5] else None)
        else:
            want = "E:TypeError"
        all_lit = all(k == "lit" for k in kinds)
        names = tuple(n for n, _ in kws)
        ncase += 1
        for path, fn in table(c):
            kwd = {mk(n, k): 101 + j for j, (n, k) in enumerate(kws)}
            if careful:
                out.write(json.dumps({"at": idx, "atpath": path}) + "\n"); out.flush()
            try:
                if path == "literal":
                    if not all_lit:
                        continue
                    r = literal(np_, names)(fn)
                else:
                    r = fn(pos, kwd)
                obs = norm(r)
            except TypeError:
                obs = "E:TypeError"
            except BaseException as e:
                obs = "E:" + type(e).__name__
            w = want
            if aak_off and kws and path in METH_O_PATHS and one_arg(c):
                w = "E:TypeError"
            stats[path] = stats.get(path, 0) + 1
            if obs != w:
                out.write(json.dumps({"i": idx, "path": path, "case": c, "want": w, "got": obs}) + "\n")
out.write(json.dumps({"done": idx + 1, "ncase": ncase, "stats": stats}) + "\n")
out.flush(); out.close()
print("@@" + json.dumps({"done": idx + 1}))
'''
