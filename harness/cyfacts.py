"""B3 fact exporters: installed inside the cybuild child before compilation;
each wraps a pipeline phase of the real compiler and stores JSON-able facts
in holder['facts'].  Added per property as needed."""
INSTALLERS = {}


def install(kind, holder):
    INSTALLERS[kind](holder)


def installer(name):
    def deco(f):
        INSTALLERS[name] = f
        return f
    return deco
