"""B3 fact exporters: installed inside the cybuild child before compilation;
each wraps a pipeline phase of the real compiler and stores JSON-able facts
in holder['facts'].  Added per property as needed."""
INSTALLERS = {}


def install(kind, holder):
    INSTALLERS[kind](holder)


def installer(name):
    def deco(f):
        INSTALLERS[name] = f
        return f
    return deco


@installer("node_positions")
def _node_positions(holder):
    """C44: the positions the compiler recorded for every function that gets a code object
    (what the attached position table must decode to)."""
    from Cython.Compiler import ExprNodes
    holder["facts"] = []
    orig = ExprNodes.CodeObjectNode.generate_codeobj

    def wrapped(self, code, error_label):
        func = self.def_node
        try:
            holder["facts"].append({"name": str(func.name), "first": int(self.pos[1]),
                                    "positions": [list(p) for p in (func.node_positions or [])]})
        except Exception as e:    # never disturb the compilation
            holder["facts"].append({"error": repr(e)})
        return orig(self, code, error_label)

    ExprNodes.CodeObjectNode.generate_codeobj = wrapped


@installer("defassign")
def _defassign(holder):
    """C21: definedness facts.  'cf': for every tracked name reference / deletion the flags that
    FlowControl.check_definitions just computed (cf_maybe_null, cf_is_null), by source position;
    'gen': the same flags on the NameNodes of the final tree handed to code generation, with the
    type of the entry; 'types': per function, the C type that every local ended up with."""
    from Cython.Compiler import FlowControl, ModuleNode, Visitor
    facts = holder["facts"] = {"cf": [], "gen": [], "types": {}, "errors": []}
    orig_check = FlowControl.check_definitions

    def check_definitions(flow, compiler_directives):
        r = orig_check(flow, compiler_directives)
        try:
            for block in flow.blocks:
                for stat in block.stats:
                    if isinstance(stat, FlowControl.NameReference):
                        node, kind = stat.node, "ref"
                    elif isinstance(stat, FlowControl.NameAssignment):
                        node, kind = stat.lhs, ("del" if stat.is_deletion else "asg")
                    else:
                        continue
                    pos = getattr(node, "pos", None)
                    if not pos or not hasattr(node, "cf_maybe_null"):
                        continue
                    facts["cf"].append({"line": int(pos[1]), "col": int(pos[2]), "name": str(stat.entry.name),
                                        "kind": kind, "mn": bool(node.cf_maybe_null), "isn": bool(node.cf_is_null)})
        except Exception as e:      # never disturb the compilation
            facts["errors"].append(repr(e))
        return r

    FlowControl.check_definitions = check_definitions

    class Walk(Visitor.TreeVisitor):
        def __init__(self):
            super().__init__()
            self.ctx = "c"      # one letter per enclosing finally block copy: n = normal/jump copy, x = exception copy

        def visit_Node(self, node):
            self.visitchildren(node)

        def visit_FuncDefNode(self, node):
            try:
                scope = node.local_scope
                name = str(node.entry.name) if getattr(node, "entry", None) is not None else str(getattr(node, "name", "?"))
                key = "%s@%d" % (name, int(node.pos[1]))
                d = {}
                for ename, entry in scope.entries.items():
                    t = entry.type
                    d[str(ename)] = {"ctype": t.declaration_code("") if t is not None else "?",
                                     "pyobject": bool(getattr(t, "is_pyobject", False)),
                                     "numeric": bool(getattr(t, "is_numeric", False)),
                                     "in_closure": bool(entry.in_closure), "from_closure": bool(entry.from_closure)}
                facts["types"][key] = d
            except Exception as e:
                facts["errors"].append(repr(e))
            self.visitchildren(node)

        def visit_TryFinallyStatNode(self, node):
            ctx = self.ctx
            self.visitchildren(node, attrs=[a for a in node.child_attrs if a not in ("finally_clause", "finally_except_clause")])
            self.ctx = ctx + "n"
            self.visitchildren(node, attrs=["finally_clause"])
            self.ctx = ctx + "x"
            self.visitchildren(node, attrs=["finally_except_clause"])
            self.ctx = ctx

        def visit_NameNode(self, node):
            try:
                entry = node.entry
                if entry is not None and (entry.is_local or entry.in_closure or entry.from_closure):
                    t = entry.type
                    facts["gen"].append({"line": int(node.pos[1]), "col": int(node.pos[2]), "name": str(node.name),
                                         "mn": bool(node.cf_maybe_null), "isn": bool(node.cf_is_null),
                                         "allow_null": bool(node.allow_null), "ctx": self.ctx, "target": bool(getattr(node, "is_target", False)),
                                         "pyobject": bool(getattr(t, "is_pyobject", False))})
            except Exception as e:
                facts["errors"].append(repr(e))

    orig_impl = ModuleNode.ModuleNode.process_implementation

    def process_implementation(self, options, result):
        try:
            Walk().visit(self)
        except Exception as e:
            facts["errors"].append(repr(e))
        return orig_impl(self, options, result)

    ModuleNode.ModuleNode.process_implementation = process_implementation


@installer("c40_types")
def _c40_types(holder):
    """C40: the decisions of type inference.  For every scope that SimpleAssignmentTypeInferer
    handles: the type every entry ended up with (C declaration + classification flags) and the
    `might_overflow` mark that MarkOverflowingArithmetic put on the entry.  Keyed by the qualified
    scope name; entries that are copies of an outer closure variable carry from_closure."""
    from Cython.Compiler import TypeInference
    facts = holder["facts"] = {"scopes": {}, "errors": []}
    orig = TypeInference.SimpleAssignmentTypeInferer.infer_types

    def infer_types(self, scope):
        r = orig(self, scope)
        try:
            d = {}
            for name, entry in scope.entries.items():
                t = entry.type
                try:
                    decl = t.declaration_code("")
                except Exception:
                    decl = str(t)
                d[str(name)] = {
                    "ctype": decl.strip(), "tname": str(t),
                    "pyobject": bool(getattr(t, "is_pyobject", False)),
                    "builtin": str(getattr(t, "name", "")) if getattr(t, "is_builtin_type", False) else "",
                    "is_int": bool(getattr(t, "is_int", False)),
                    "is_float": bool(getattr(t, "is_float", False)),
                    "is_bint": t is TypeInference.PyrexTypes.c_bint_type,
                    "is_uchar": bool(getattr(t, "is_unicode_char", False)),
                    "might_overflow": bool(entry.might_overflow),
                    "in_closure": bool(entry.in_closure), "from_closure": bool(entry.from_closure),
                    "is_arg": bool(getattr(entry, "is_arg", False)),
                    "n_assignments": len(getattr(entry, "cf_assignments", ()) or ())}
            key = str(getattr(scope, "qualified_name", None) or scope.name)
            while key in facts["scopes"]:
                key += "'"
            facts["scopes"][key] = d
        except Exception as e:      # never disturb the compilation
            facts["errors"].append(repr(e))
        return r

    TypeInference.SimpleAssignmentTypeInferer.infer_types = infer_types

    # types of the expression nodes of the final tree (what arithmetic is done in C), by position
    from Cython.Compiler import ModuleNode, Visitor, ExprNodes
    facts["nodes"] = []

    class Walk(Visitor.TreeVisitor):
        def visit_Node(self, node):
            try:
                if isinstance(node, ExprNodes.ExprNode) and node.pos and getattr(node, "type", None) is not None:
                    t = node.type
                    if not t.is_pyobject or isinstance(node, (ExprNodes.BinopNode, ExprNodes.NameNode)):
                        facts["nodes"].append([int(node.pos[1]), int(node.pos[2]), type(node).__name__,
                                               str(getattr(node, "operator", "") or getattr(node, "name", "") or ""), str(t)])
            except Exception as e:
                facts["errors"].append(repr(e))
            self.visitchildren(node)

    orig_impl = ModuleNode.ModuleNode.process_implementation

    def process_implementation(self, options, result):
        try:
            Walk().visit(self)
        except Exception as e:
            facts["errors"].append(repr(e))
        return orig_impl(self, options, result)

    ModuleNode.ModuleNode.process_implementation = process_implementation
