"""B3 fact exporters: installed inside the cybuild child before compilation;
each wraps a pipeline phase of the real compiler and stores JSON-able facts
in holder['facts'].  Added per property as needed."""
INSTALLERS = {}


def install(kind, holder):
    INSTALLERS[kind](holder)


def installer(name):
    def deco(f):
        INSTALLERS[name] = f
        return f
    return deco


@installer("node_positions")
def _node_positions(holder):
    """C44: the positions the compiler recorded for every function that gets a code object
    (what the attached position table must decode to)."""
    from Cython.Compiler import ExprNodes
    holder["facts"] = []
    orig = ExprNodes.CodeObjectNode.generate_codeobj

    def wrapped(self, code, error_label):
        func = self.def_node
        try:
            holder["facts"].append({"name": str(func.name), "first": int(self.pos[1]),
                                    "positions": [list(p) for p in (func.node_positions or [])]})
        except Exception as e:    # never disturb the compilation
            holder["facts"].append({"error": repr(e)})
        return orig(self, code, error_label)

    ExprNodes.CodeObjectNode.generate_codeobj = wrapped
