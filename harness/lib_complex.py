"""Helpers of the C08 check (complex arithmetic): spec value syntax, the CPython oracle (P),
a float transcription of the struct-variant helpers of Cython/Utility/Complex.c (used to
classify deviations as "exactly what the unchanged algorithm computes"), a plain-C99 oracle
program (what `double _Complex` arithmetic of the platform compiler gives without Cython),
the test module source and a compact call driver."""
import ctypes
import json
import math
import os
import subprocess

import core

BINARY = ("add", "sub", "mul", "div", "cdiv", "pow", "powc")
UNARY = ("neg", "abs", "conv", "fromreal")

# --------------------------------------------------------------------------
# spec value syntax


def pf(s):
    """spec float string -> float (None for the undecided flag '?')"""
    if s == "?":
        return None
    if s == "nan":
        return math.nan
    if s in ("inf", "-inf"):
        return float(s)
    if s == "0":
        return 0.0
    if s == "-0":
        return -0.0
    m, e = s.split("p")
    return math.ldexp(int(m), int(e))


def same(x, y):
    """bit-level equality of doubles with all NaNs identified"""
    if x != x or y != y:
        return x != x and y != y
    return x == y and math.copysign(1.0, x) == math.copysign(1.0, y)


def hx(x):
    """text form that keeps everything, the sign of a NaN included (C99 division looks at it)"""
    if x != x:
        return "-nan" if math.copysign(1.0, x) < 0 else "nan"
    return "inf" if x == math.inf else "-inf" if x == -math.inf else x.hex()


def unhx(s):
    return float(s) if s in ("nan", "inf", "-inf", "-nan") else float.fromhex(s)


def cls(x):
    if x != x:
        return "nan"
    if x in (math.inf, -math.inf):
        return "inf"
    if x == 0:
        return "zero"
    e = math.frexp(x)[1]
    return "huge" if e > 500 else "tiny" if e < -500 else "fin"


# --------------------------------------------------------------------------
# P: CPython


def py_op(op, a, b):
    """-> complex | 'ZDE' | 'OVF'   (abs: complex(|a|, 0))"""
    try:
        if op == "add":
            return a + b
        if op == "sub":
            return a - b
        if op == "mul":
            return a * b
        if op in ("div", "cdiv"):
            return a / b
        if op in ("pow", "powc"):
            return a ** b
        if op == "neg":
            return -a
        if op == "abs":
            return complex(abs(a), 0.0)
        if op == "conv":
            return complex(a)
        if op == "fromreal":
            return complex(a.real)
    except ZeroDivisionError:
        return "ZDE"
    except OverflowError:
        return "OVF"
    raise ValueError(op)


# --------------------------------------------------------------------------
# float transcription of Utility/Complex.c, struct variant (the unchanged algorithm)

_libm = ctypes.CDLL("libm.so.6")
for _n in ("log", "exp", "cos", "sin", "sqrt"):
    getattr(_libm, _n).restype = ctypes.c_double
    getattr(_libm, _n).argtypes = [ctypes.c_double]
for _n in ("atan2", "pow"):
    getattr(_libm, _n).restype = ctypes.c_double
    getattr(_libm, _n).argtypes = [ctypes.c_double, ctypes.c_double]


def fdiv(x, y):
    """IEEE division"""
    if x != x or y != y:
        return math.nan
    if y == 0:
        if x == 0:
            return math.nan
        return math.copysign(math.inf, x) * math.copysign(1.0, y)
    if x in (math.inf, -math.inf) and y in (math.inf, -math.inf):
        return math.nan
    try:
        return x / y
    except OverflowError:
        return math.copysign(math.inf, x) * math.copysign(1.0, y)


def icast(x):
    """(int)x as gcc/x86 does it (INT_MIN outside the range)"""
    if x != x or abs(x) >= 2147483648.0:
        return -2147483648
    return int(x)


def cy_prod(a, b):
    return (a[0] * b[0] - a[1] * b[1], a[0] * b[1] + a[1] * b[0])


def cy_quot(a, b):
    ar, ai = a
    br, bi = b
    if bi == 0:
        return (fdiv(ar, br), fdiv(ai, br)), "quot:bimag0"
    if abs(br) >= abs(bi):
        r = fdiv(bi, br)
        s = fdiv(1.0, br + bi * r)
        return ((ar + ai * r) * s, (ai - ar * r) * s), "quot:re>=im"
    r = fdiv(br, bi)
    s = fdiv(1.0, bi + br * r)
    return ((ar * r + ai) * s, (ai * r - ar) * s), "quot:im>re"


def cy_abs(a):
    return _libm.sqrt(a[0] * a[0] + a[1] * a[1])


def cy_pow(a, b):
    ar, ai = a
    br, bi = b
    if bi == 0 and br == icast(br):
        sg = "pos"
        if br < 0:
            denom = ar * ar + ai * ai
            ar, ai = fdiv(ar, denom), fdiv(-ai, denom)
            br = -br
            sg = "neg"
        n = icast(br)
        a = (ar, ai)
        if n == 0:
            return (1.0, 0.0), "pow:int0"
        if n == 1:
            return a, "pow:int1" + sg
        if n == 2:
            return cy_prod(a, a), "pow:int2" + sg
        if n == 3:
            return cy_prod(cy_prod(a, a), a), "pow:int3" + sg
        if n == 4:
            z = cy_prod(a, a)
            return cy_prod(z, z), "pow:int4" + sg
    if ai == 0:
        if ar == 0:
            return (ar, ai), "pow:zerobase"
        elif bi == 0 and ar >= 0:
            return (_libm.pow(ar, br), 0.0), "pow:general"
        elif ar > 0:
            r, theta = ar, 0.0
        else:
            r, theta = -ar, _libm.atan2(0.0, -1.0)
    else:
        r = cy_abs((ar, ai))
        theta = _libm.atan2(ai, ar)
    lnr = _libm.log(r)
    z_r = _libm.exp(lnr * br - theta * bi)
    z_theta = theta * br + lnr * bi
    return (z_r * _libm.cos(z_theta), z_r * _libm.sin(z_theta)), "pow:general"


def cy_op(op, a, b):
    """struct variant: ((re, im) | 'ZDE', path)   a, b: (re, im) tuples"""
    if op == "add":
        return (a[0] + b[0], a[1] + b[1]), "sum"
    if op == "sub":
        return (a[0] - b[0], a[1] - b[1]), "diff"
    if op == "mul":
        return cy_prod(a, b), "prod"
    if op in ("div", "cdiv"):
        if op == "div" and b[0] == 0 and b[1] == 0:
            return "ZDE", "div:zerotest"
        return cy_quot(a, b)
    if op in ("pow", "powc"):
        return cy_pow(a, b)
    if op == "neg":
        return (-a[0], -a[1]), "neg"
    if op == "abs":
        return (cy_abs(a), 0.0), "abs:sqrt"
    if op == "conv":
        return a, "parts"
    if op == "fromreal":
        return (a[0], 0.0), "parts"
    raise ValueError(op)


# --------------------------------------------------------------------------
# plain C99 oracle (no Cython involved): the platform's `double _Complex`

C99_SRC = r'''
#include <complex.h>
#include <math.h>
#include <stdio.h>
#include <stdlib.h>
#include <string.h>
static double complex mk(double re, double im) { double complex z; __real__(z) = re; __imag__(z) = im; return z; }
int main(void) {
    char op[32], s1[64], s2[64], s3[64], s4[64];
    while (scanf("%31s %63s %63s %63s %63s", op, s1, s2, s3, s4) == 5) {
        double complex a = mk(strtod(s1, 0), strtod(s2, 0)), b = mk(strtod(s3, 0), strtod(s4, 0)), r = 0;
        if (!strcmp(op, "add")) r = a + b;
        else if (!strcmp(op, "sub")) r = a - b;
        else if (!strcmp(op, "mul")) r = a * b;
        else if (!strcmp(op, "div")) r = a / b;
        else if (!strcmp(op, "neg")) r = -a;
        else if (!strcmp(op, "abs")) r = mk(cabs(a), 0.0);
        else if (!strcmp(op, "pow")) r = cpow(a, b);
        else if (!strcmp(op, "conv")) r = __real__(a) + __imag__(a) * (double complex)_Complex_I;
        else if (!strcmp(op, "iszero")) r = mk((b == 0) ? 1.0 : 0.0, 0.0);
        else { printf("bad\n"); continue; }
        printf("%a %a\n", __real__(r), __imag__(r));
    }
    return 0;
}
'''


class C99Oracle(object):
    def __init__(self, workdir):
        self.exe = os.path.join(workdir, "c99oracle")
        src = os.path.join(workdir, "c99oracle.c")
        with open(src, "w") as f:
            f.write(C99_SRC)
        p = subprocess.run(["gcc", "-O0", "-w", "-o", self.exe, src, "-lm"], capture_output=True, text=True, timeout=300)
        if p.returncode != 0:
            core.die("cannot build the C99 oracle: %s" % p.stderr[-2000:])

    def run(self, items):
        """items: list of (op, (ar, ai), (br, bi)) -> list of (re, im)"""
        inp = "".join("%s %s %s %s %s\n" % (op, hx(a[0]), hx(a[1]), hx(b[0]), hx(b[1])) for op, a, b in items)
        p = subprocess.run([self.exe], input=inp, capture_output=True, text=True, timeout=900)
        lines = p.stdout.split("\n")
        if p.returncode != 0 or len(lines) < len(items) or "bad" in lines:
            core.die("C99 oracle failed: rc=%s %s" % (p.returncode, p.stderr[-500:]))
        out = []
        for ln in lines[:len(items)]:
            x, y = ln.split()
            out.append((unhx(x), unhx(y)))
        return out


# --------------------------------------------------------------------------
# test module

def module_source():
    src = ["# cython: language_level=3", "cimport cython", ""]
    binops = (("add", "a + b", ""), ("sub", "a - b", ""), ("mul", "a * b", ""), ("div", "a / b", ""),
              ("cdiv", "a / b", "@cython.cdivision(True)\n"), ("pow", "a ** b", ""), ("powc", "a ** b", "@cython.cpow(True)\n"))
    for name, expr, deco in binops:
        src.append("%sdef a_%s(double complex a, double complex b):\n    return %s\n" % (deco, name, expr))
        src.append("%sdef p_%s(double ar, double ai, double br, double bi):\n    cdef double complex a, b\n"
                   "    a.real = ar\n    a.imag = ai\n    b.real = br\n    b.imag = bi\n    return %s\n" % (deco, name, expr))
    for name, expr in (("neg", "-a"), ("abs", "abs(a)"), ("conv", "a")):
        src.append("def a_%s(double complex a):\n    return %s\n" % (name, expr))
        src.append("def p_%s(double ar, double ai):\n    cdef double complex a\n    a.real = ar\n    a.imag = ai\n    return %s\n" % (name, expr))
    src.append("def a_fromreal(double x):\n    cdef double complex z = x\n    return z\n")
    src.append("def p_fromreal(double x):\n    cdef double complex z\n    z = x\n    return z\n")
    # conversion from arbitrary Python objects
    src.append("def from_obj(o):\n    cdef double complex z = o\n    return z\n")
    src.append("def from_arg(double complex z):\n    return z\n")
    return "\n".join(src)


DRIVER = r'''
import json, sys, importlib
moddir, modname, infile, outfile, start = sys.argv[1], sys.argv[2], sys.argv[3], sys.argv[4], int(sys.argv[5])
sys.path.insert(0, moddir)
mod = importlib.import_module(modname)
if not mod.__file__.endswith(".so"):
    print("@@" + json.dumps({"fatal": "not an extension: %s" % mod.__file__})); sys.exit(3)
job = json.load(open(infile))
def unhx(s):
    return float(s) if s in ("nan", "inf", "-inf", "-nan") else float.fromhex(s)
vals = [unhx(s) for s in job["vals"]]
fns = [getattr(mod, n) for n in job["fns"]]
argmode = [n.startswith("a_") and not n.endswith("fromreal") for n in job["fns"]]
inf = float("inf")
import math
def hx(x):
    if x != x:
        return "-nan" if math.copysign(1.0, x) < 0 else "nan"
    return "inf" if x == inf else "-inf" if x == -inf else x.hex()
out = open(outfile, "a")
buf = []
calls = job["calls"]
for i in range(start, len(calls)):
    c = calls[i]
    k = c[0]
    v = [vals[j] for j in c[1:]]
    if argmode[k]:
        v = [complex(v[j], v[j + 1]) for j in range(0, len(v), 2)]
    if len(buf) >= 2000:
        out.write("".join(buf)); out.flush(); buf = []
    try:
        r = fns[k](*v)
        if type(r) is complex:
            s = "c %s %s" % (hx(r.real), hx(r.imag))
        elif type(r) is float:
            s = "f %s" % hx(r)
        else:
            s = "o %s" % type(r).__name__
    except BaseException as e:
        s = "E:" + type(e).__name__
    buf.append("%d %s\n" % (i, s))
out.write("".join(buf)); out.flush(); out.close()
print("@@" + json.dumps({"done": len(calls)}))
'''


def run_cells(build, fns, vals, calls, tag="cells", timeout=1800):
    """calls: [fn_index, value_index...]; returns list of observations:
    ('c', re, im) | ('f', x) | 'E:<Type>' | 'CRASH:<sig>' | 'TIMEOUT' | ('o', typename)"""
    moddir = os.path.dirname(build.so)
    inf = os.path.join(moddir, tag + "_in.json")
    outf = os.path.join(moddir, tag + "_out.txt")
    with open(inf, "w") as f:
        json.dump({"vals": [hx(v) for v in vals], "fns": fns, "calls": calls}, f, separators=(",", ":"))
    if os.path.exists(outf):
        os.unlink(outf)
    obs = [None] * len(calls)
    start, crashes = 0, 0
    while start < len(calls):
        ch = core.run_child(DRIVER, [moddir, build.name, inf, outf, str(start)], timeout=timeout, mem_mb=4096)
        if os.path.exists(outf):
            with open(outf) as f:
                for line in f:
                    p = line.split()
                    if len(p) < 2:
                        continue
                    i = int(p[0])
                    if p[1] == "c":
                        obs[i] = ("c", unhx(p[2]), unhx(p[3]))
                    elif p[1] == "f":
                        obs[i] = ("f", unhx(p[2]))
                    elif p[1] == "o":
                        obs[i] = ("o", p[2])
                    else:
                        obs[i] = p[1]
        if [j for j in ch.json_lines() if "fatal" in j]:
            core.die("driver: not an extension module")
        if ch.rc == 0 and ch.json_lines():
            break
        nxt = 0
        while nxt < len(calls) and obs[nxt] is not None:
            nxt += 1
        if nxt >= len(calls):
            break
        obs[nxt] = "TIMEOUT" if ch.timed_out else ("CRASH:%d" % ch.signal if ch.crashed else "CRASH:exit%s" % ch.rc)
        core.CRASH_LOGS.append({"module": build.name, "call": calls[nxt], "obs": obs[nxt], "stderr": ch.err[-3000:]})
        crashes += 1
        if crashes > 50:
            core.die("too many crashes in run_cells")
        start = nxt + 1
    return obs
