#!/venv/bin/python
"""Entry point: check.py <ID> [--tier quick|thorough] [--replay PATH] [--selftest]

exit 0: property held on everything explored (KNOWN-FINDING lines may be printed)
exit 1: VIOLATION property=<id> replay=<path> printed
exit 2: machinery failure (TLC error, spec drift, vacuous model, ...)"""
import argparse
import importlib
import os
import sys
import time
import traceback

sys.path.insert(0, os.path.dirname(os.path.abspath(__file__)))
import core  # noqa: E402


def main():
    ap = argparse.ArgumentParser()
    ap.add_argument("prop")
    ap.add_argument("--tier", default=os.environ.get("VERIF_TIER", "quick"), choices=["quick", "thorough"])
    ap.add_argument("--replay", default=None)
    ap.add_argument("--selftest", action="store_true")
    a = ap.parse_args()
    seed = int(os.environ.get("VERIF_SEED", "0") or 0)
    prop = a.prop.upper()
    try:
        mod = importlib.import_module("checks." + prop.lower())
    except ImportError:
        traceback.print_exc()
        core.die("no check module for %s" % prop)
    t0 = time.time()
    try:
        if a.selftest:
            rc = mod.selftest(seed)
        elif a.replay:
            rc = mod.replay(a.replay, seed)
        else:
            rc = mod.run(a.tier, seed)
    except SystemExit:
        raise
    except BaseException:
        traceback.print_exc()
        core.die("check %s raised" % prop)
    sys.stdout.flush()
    print("check %s tier=%s seed=%d rc=%s wall=%.1fs" % (prop, a.tier, seed, rc, time.time() - t0))
    sys.exit(rc or 0)


if __name__ == "__main__":
    main()
