"""C01 helpers: rendering of PyCore program trees (spec/PyCore.tla) as Python source, the runtime module
shared by the CPython and the compiled leg, the child driver, observation normalisation and the
spec-side case descriptor."""
import json
import os
import re
import threading

import core

ARG_POOL = ["-1", "0", "2", "'a'", "None", "(1, 2)"]


CALL_IDX = [(1, 4), (2, 6), (3, 4), (1, 6), (2, 4), (3, 6), (1, 1), (2, 2), (3, 3), (4, 4), (5, 5), (6, 6), (1, 2), (2, 3), (4, 5), (5, 6), (6, 1), (1, 3), (3, 5), (4, 6), (5, 1), (6, 2), (2, 5), (4, 1), (5, 2), (6, 3), (1, 5), (3, 1), (4, 2), (5, 3), (6, 4), (2, 1), (3, 2), (4, 3), (5, 4), (6, 5)]


def call_seq(n):
    """mirror of CallSeq in PyCore.tla"""
    return [[ARG_POOL[i - 1], ARG_POOL[j - 1]] for i, j in CALL_IDX[:n]]


RUNTIME = '''
LOG = []

def L(k):
    LOG.append(repr(k))
    return k
'''


# --------------------------------------------------------------------------
# rendering

class Renderer(object):
    def __init__(self, pid):
        self.pid = pid

    def name(self, s):
        if s in ("g", "f"):
            return "%s%d" % (s, self.pid)
        return s

    def expr(self, n):
        t, a = n["t"], n["a"]
        e = self.expr
        if t == "int":
            return str(n["i"]) if n["i"] >= 0 else "(%d)" % n["i"]
        if t == "str":
            return repr(n["s"])
        if t == "none":
            return "None"
        if t == "true":
            return "True"
        if t == "name":
            return self.name(n["s"])
        if t == "tuple":
            return "(%s,)" % e(a[0]) if len(a) == 1 else "(%s)" % ", ".join(e(c) for c in a)
        if t == "list":
            return "[%s]" % ", ".join(e(c) for c in a)
        if t == "bin":
            return "(%s %s %s)" % (e(a[0]), n["s"], e(a[1]))
        if t == "not":
            return "(not %s)" % e(a[0])
        if t == "neg":
            return "(-%s)" % e(a[0])
        if t in ("and", "or"):
            return "(%s %s %s)" % (e(a[0]), t, e(a[1]))
        if t == "cond":
            return "(%s if %s else %s)" % (e(a[1]), e(a[0]), e(a[2]))
        if t == "walrus":
            return "(%s := %s)" % (self.name(n["s"]), e(a[0]))
        if t == "log":
            return "L(%s)" % e(a[0])
        if t == "call":
            return "%s(%s)" % (e(a[0]), ", ".join(e(c) for c in a[1:]))
        if t == "attr":
            return "%s.%s" % ("(%s)" % e(a[0]) if a[0]["t"] == "int" else e(a[0]), n["s"])
        if t == "sub":
            return "%s[%s]" % (e(a[0]), e(a[1]))
        if t == "lambda":
            ps = list(n["p"])
            nd = len(a) - 1
            parts = ps[:len(ps) - nd] + ["%s=%s" % (p, e(d)) for p, d in zip(ps[len(ps) - nd:], a[1:])]
            return "(lambda %s: %s)" % (", ".join(parts), e(a[0])) if parts else "(lambda: %s)" % e(a[0])
        if t == "comp":
            elt, it, cond = a
            tail = "for %s in %s" % (n["p"][0], e(it))
            if cond["t"] != "true":
                tail += " if %s" % e(cond)
            if n["s"] == "dict":
                return "{%s: %s %s}" % (e(elt["a"][0]), e(elt["a"][1]), tail)
            body = "%s %s" % (e(elt), tail)
            return {"list": "[%s]", "set": "{%s}", "gen": "(%s)"}[n["s"]] % body
        raise ValueError("expr " + t)

    def target(self, n):
        t = n["t"]
        if t == "tup":
            return "(%s%s)" % (", ".join(self.target(c) for c in n["a"]), "," if len(n["a"]) == 1 else "")
        if t == "star":
            return "*" + self.target(n["a"][0])
        return self.expr(n)

    def stmts(self, n, ind, out):
        t, a = n["t"], n["a"]
        pad = "    " * ind
        if t == "block":
            for c in a:
                self.stmts(c, ind, out)
        elif t == "pass":
            out.append(pad + "pass")
        elif t == "assign":
            out.append("%s%s = %s" % (pad, self.target(a[0]), self.expr(a[1])))
        elif t == "aug":
            out.append("%s%s %s= %s" % (pad, self.target(a[0]), n["s"], self.expr(a[1])))
        elif t == "expr":
            out.append(pad + self.expr(a[0]))
        elif t == "return":
            out.append("%sreturn %s" % (pad, self.expr(a[0])))
        elif t == "raise":
            out.append("%sraise %s(%s)" % (pad, n["s"], self.expr(a[0])))
        elif t in ("break", "continue"):
            out.append(pad + t)
        elif t == "if":
            out.append("%sif %s:" % (pad, self.expr(a[0])))
            self.body(a[1], ind + 1, out)
            if a[2]["t"] != "pass":
                out.append(pad + "else:")
                self.body(a[2], ind + 1, out)
        elif t == "for":
            out.append("%sfor %s in %s:" % (pad, self.target(a[0]), self.expr(a[1])))
            self.body(a[2], ind + 1, out)
        elif t == "def":
            ps = list(n["p"])
            nd = len(a) - 1
            parts = ps[:len(ps) - nd] + ["%s=%s" % (p, self.expr(d)) for p, d in zip(ps[len(ps) - nd:], a[1:])]
            out.append("%sdef %s(%s):" % (pad, self.name(n["s"]), ", ".join(parts)))
            if n["w"]:
                out.append("%s    %s %s" % (pad, n["w"][0], self.name(n["w"][1])))
            self.body(a[0], ind + 1, out)
        elif t == "class":
            out.append("%sclass %s:" % (pad, n["s"]))
            self.body(a[0], ind + 1, out)
        else:
            raise ValueError("stmt " + t)

    def body(self, n, ind, out):
        k = len(out)
        self.stmts(n, ind, out)
        if len(out) == k:
            out.append("    " * ind + "pass")


def render(prog, pid):
    """source text of one program: its module global and its entry function"""
    out = ["g%d = 0" % pid]
    Renderer(pid).stmts(prog, 0, out)
    return "\n".join(out) + "\n"


MOD_HEADER = "from c01rt import L\n"


# --------------------------------------------------------------------------
# child driver: runs every (program, call) of a module and prints normalised observations

DRIVER = r'''
import json, sys, re, importlib, types
moddir, modname, workfile, compiled = sys.argv[1], sys.argv[2], sys.argv[3], sys.argv[4] == "C"
sys.path.insert(0, moddir)
sys.setrecursionlimit(2000)
import c01rt
mod = importlib.import_module(modname)
if compiled and not mod.__file__.endswith(".so"):
    print("@@" + json.dumps({"fatal": "not an extension: %s" % mod.__file__})); sys.exit(3)
if not compiled and not mod.__file__.endswith(".py"):
    print("@@" + json.dumps({"fatal": "not a source module: %s" % mod.__file__})); sys.exit(3)

_OBJ = re.compile(r"<[\w.<>]*\.C object at 0x[0-9a-f]+>")
_BM = re.compile(r"<bound method [^<>]*(<locals>[^<>]*)* of <obj>>")
_FN = re.compile(r"<(?:function|cyfunction) [^>]*(?:<locals>[^>]*|<lambda>[^>]*)*>")
_GEN = re.compile(r"<generator object [^>]*(?:<locals>[^>]*|<genexpr>[^>]*|<lambda>[^>]*)* at 0x[0-9a-f]+>")
_CLS = re.compile(r"<class '[\w.<>]*\.C'>")
_BI = re.compile(r"<built-in function \w+>|<class '\w+'>")

def nrepr(v):
    return norm(repr(v))

def norm(s):
    if "cython_function_or_method" in s:      # the compiled function type differs by design (documented)
        s = re.sub(r"(?:_cython_\w+\.)?cython_function_or_method", "function", s)
    if "<" not in s:
        return s
    s = _OBJ.sub("<obj>", s)
    s = _BM.sub("<bm>", s)
    s = re.sub(r"<bound method .*? of <obj>>", "<bm>", s)
    s = re.sub(r"<(?:function|cyfunction) (?:[\w.]|<locals>|<lambda>)+ at 0x[0-9a-f]+>", "<fn>", s)
    s = re.sub(r"<generator object (?:[\w.]|<locals>|<lambda>|<genexpr>)+ at 0x[0-9a-f]+>", "<gen>", s)
    s = _CLS.sub("<cls>", s)
    s = _BI.sub("<bi>", s)
    return s

def tname(v):
    t = type(v)
    n = t.__name__
    if isinstance(v, type):
        return "bi" if v.__module__ == "builtins" else "cls"
    if n in ("function", "cython_function_or_method"):
        return "fn"
    if n == "builtin_function_or_method":
        return "bi"
    if n == "generator":
        return "gen"
    if n == "method":
        return "bm"
    if n == "C":
        return "obj"
    return n

work = json.load(open(workfile))
for pid, calls in work:
    f = getattr(mod, "f%d" % pid)
    res = []
    for a, b in calls:
        del c01rt.LOG[:]
        try:
            r = f(eval(a), eval(b))
            o = {"kind": "ret", "ty": tname(r), "rp": nrepr(r)}
        except Exception as e:
            try:
                args = nrepr(e.args)
            except Exception:
                args = "<unrepresentable>"
            o = {"kind": "exc", "ty": type(e).__name__, "rp": args}
        try:
            o["log"] = [norm(x) for x in c01rt.LOG]
            o["g"] = nrepr(getattr(mod, "g%d" % pid)) if hasattr(mod, "g%d" % pid) else "<unbound>"
        except Exception as e:
            o["log"] = ["<error %s>" % type(e).__name__]
            o["g"] = "?"
        res.append(o)
    print("@@" + json.dumps([pid, res]))
    sys.stdout.flush()
print("@@" + json.dumps({"done": len(work)}))
'''


def _write_once(path, text):
    if os.path.exists(path):
        return
    tmp = "%s.%d.%d" % (path, os.getpid(), threading.get_ident())
    with open(tmp, "w") as f:
        f.write(text)
    os.replace(tmp, path)


def write_runtime(d):
    _write_once(os.path.join(d, "c01rt.py"), RUNTIME)
    _write_once(os.path.join(d, "c01_driver.py"), DRIVER)


def run_work(moddir, modname, work, leg, tag, timeout=600):
    """work: [[pid, [[a, b], ...]], ...] -> {pid: [obs...]} ; programs whose child died get the string 'CRASH:<sig>'/'TIMEOUT'
    for the first unanswered program, the rest is re-run in a new child."""
    write_runtime(moddir)
    drv = os.path.join(moddir, "c01_driver.py")
    out = {}
    todo = list(work)
    rounds = 0
    while todo:
        rounds += 1
        wf = os.path.join(moddir, "%s_%d.json" % (tag, rounds))
        with open(wf, "w") as f:
            json.dump(todo, f)
        ch = core.run_child(drv, [moddir, modname, wf, leg], cwd=moddir, timeout=timeout, mem_mb=4096)
        done = False
        for rec in ch.json_lines():
            if isinstance(rec, dict):
                if "fatal" in rec:
                    core.die("c01 driver: %s" % rec["fatal"])
                done = True
            else:
                out[rec[0]] = rec[1]
        rest = [w for w in todo if w[0] not in out]
        if not done and not ch.crashed and not ch.timed_out and len(rest) == len(todo):
            core.die("c01 driver failed before the first program (%s): %s" % (leg, ch.err[-1500:]))
        if done or not rest:
            break
        # the child died while running the first unanswered program
        pid = rest[0][0]
        out[pid] = "TIMEOUT" if ch.timed_out else ("CRASH:%d" % ch.signal if ch.crashed else "CRASH:exit%s" % ch.rc)
        core.CRASH_LOGS.append({"module": modname, "program": pid, "obs": out[pid], "stderr": ch.err[-3000:]})
        todo = rest[1:]
        if rounds > 40:
            core.die("too many crashes in c01 run_work")
    return out


# --------------------------------------------------------------------------
# program features (from the spec-published tree)

def walk(n):
    yield n
    for c in n["a"]:
        if isinstance(c, dict):
            for x in walk(c):
                yield x


def node_tags(prog):
    """production tags occurring in a program (vacuity accounting)"""
    tags = set()
    for n in walk(prog):
        t = n["t"]
        if t == "bin":
            tags.add("bin:" + n["s"])
        elif t == "comp":
            tags.add("comp:" + n["s"])
        elif t == "call" and n["a"][0]["t"] == "name":
            tags.add("call:" + n["a"][0]["s"])
        elif t == "call":
            tags.add("call:" + n["a"][0]["t"])
        elif t == "def":
            tags.add("def:" + n["s"] + (":" + n["w"][0] if n["w"] else ""))
        elif t == "assign":
            tags.add("assign:" + n["a"][0]["t"])
            if n["a"][0]["t"] == "tup":
                tags.add("unpack:" + "".join("*" if c["t"] == "star" else ("(" if c["t"] == "tup" else "n") for c in n["a"][0]["a"]))
        elif t == "aug":
            tags.add("aug:" + n["a"][0]["t"])
        else:
            tags.add(t)
    return tags


def size(prog):
    return sum(1 for _ in walk(prog))


def _is_lit(n):
    return n["t"] in ("int", "str", "none", "true") or (n["t"] in ("tuple", "list") and all(_is_lit(c) for c in n["a"]))


def _reads(n, name):
    return any(x["t"] == "name" and x["s"] == name for x in walk(n))


def static_features(prog):
    """program-level facts read off the spec-published tree (used for compile-time rejections, which have no call)"""
    f = {"literal_unpack_length_mismatch": False, "literal_tuple_const_index_out_of_range": False,
         "literal_unpack_trailing_star_gets_nothing": False, "class_body_comprehension_with_closure_over_its_variable": False,
         "genexpr_walrus_to_global_and_inner_global_decl": False, "subscript_of_variable_iterating_range": False,
         "sorted_of_conditional_expression": False, "conditional_of_str_literal_iteration_var_and_int_tuple_literal": False,
         "lambda_in_code_after_constant_true_if_that_exits": False}

    def truthy_literal(t):
        return (t["t"] == "int" and t["i"] != 0) or (t["t"] == "str" and t["s"] != "") or t["t"] == "true" or \
               (t["t"] == "tuple" and len(t["a"]) > 0 and _is_lit(t))

    def exits(st):
        if st["t"] in ("raise", "return"):
            return True
        if st["t"] == "block":
            return bool(st["a"]) and exits(st["a"][-1])
        return False

    def flat(stmts):
        out = []
        for st in stmts:
            if st["t"] == "block":
                out.extend(flat(st["a"]))
            else:
                out.append(st)
        return out
    for n in walk(prog):
        if n["t"] == "def":
            body = flat(n["a"][0]["a"])
            for i, st in enumerate(body):
                if st["t"] == "if" and truthy_literal(st["a"][0]) and exits(st["a"][1]):
                    if any(x["t"] == "lambda" for later in body[i + 1:] for x in walk(later)):
                        f["lambda_in_code_after_constant_true_if_that_exits"] = True
    for n in walk(prog):
        if n["t"] == "call" and n["a"][0]["t"] == "name" and n["a"][0]["s"] == "sorted" and len(n["a"]) == 2 and n["a"][1]["t"] == "cond":
            f["sorted_of_conditional_expression"] = True
        if n["t"] in ("comp", "for"):
            it = n["a"][1]
            var = n["p"][0] if n["t"] == "comp" else n["a"][0].get("s")
            parts = [n["a"][0], n["a"][2]] if n["t"] == "comp" else [n["a"][2]]
            if it["t"] == "str":
                for part in parts:
                    for x in walk(part):
                        if x["t"] == "cond":
                            br = [x["a"][1], x["a"][2]]
                            isvar = [b["t"] == "name" and b["s"] == var for b in br]
                            istup = [b["t"] == "tuple" and len(b["a"]) > 0 and all(c["t"] == "int" for c in b["a"]) for b in br]
                            if (isvar[0] and istup[1]) or (isvar[1] and istup[0]):
                                f["conditional_of_str_literal_iteration_var_and_int_tuple_literal"] = True
    for n in walk(prog):
        # a loop / comprehension variable that iterates over range(..) is subscripted
        if n["t"] == "comp" and n["a"][1]["t"] == "call" and n["a"][1]["a"][0]["t"] == "name" and n["a"][1]["a"][0]["s"] == "range":
            var = n["p"][0]
            parts = [n["a"][0], n["a"][2]]
        elif n["t"] == "for" and n["a"][1]["t"] == "call" and n["a"][1]["a"][0]["t"] == "name" and n["a"][1]["a"][0]["s"] == "range":
            var = n["a"][0]["s"]
            parts = [n["a"][2]]
        else:
            continue
        for part in parts:
            if any(x["t"] == "sub" and x["a"][0]["t"] == "name" and x["a"][0]["s"] == var for x in walk(part)):
                f["subscript_of_variable_iterating_range"] = True
    # f declares `global g`: a := to g inside a generator expression of f, plus an inner def that declares `global g` too
    body = prog["a"][0]["a"]
    inner_global = any(st["t"] == "def" and st["w"] and st["w"][0] == "global" for st in body)
    def f_level(n):
        yield n
        if n["t"] in ("def", "lambda", "class"):
            return
        for c in n["a"]:
            if isinstance(c, dict):
                for x in f_level(c):
                    yield x
    for st in body:
        if st["t"] in ("def", "class") or (st["t"] == "block" and any(c["t"] == "class" for c in st["a"])):
            continue
        for n in f_level(st):
            if n["t"] == "comp" and n["s"] == "gen" and any(x["t"] == "walrus" and x["s"] == "g" for x in walk(n)):
                f["genexpr_walrus_to_global_and_inner_global_decl"] = inner_global
    for n in walk(prog):
        if n["t"] == "assign" and n["a"][0]["t"] == "tup" and n["a"][1]["t"] in ("tuple", "list", "str"):
            tg = n["a"][0]["a"]
            nv = len(n["a"][1]["s"]) if n["a"][1]["t"] == "str" else len(n["a"][1]["a"])
            star = any(c["t"] == "star" for c in tg)
            if (star and nv < len(tg) - 1) or (not star and nv != len(tg)):
                f["literal_unpack_length_mismatch"] = True
            if tg[-1]["t"] == "star" and nv == len(tg) - 1:
                f["literal_unpack_trailing_star_gets_nothing"] = True
        if n["t"] == "sub" and n["a"][0]["t"] == "tuple" and n["a"][1]["t"] == "int" and _is_lit(n["a"][0]):
            k, ln = n["a"][1]["i"], len(n["a"][0]["a"])
            if k >= ln or k < -ln:
                f["literal_tuple_const_index_out_of_range"] = True
        if n["t"] == "class":
            # statements of the class body proper (not the methods)
            for st in n["a"][0]["a"]:
                if st["t"] == "def":
                    continue
                for c in walk(st):
                    if c["t"] == "comp" and any(x["t"] == "lambda" and _reads(x["a"][0], c["p"][0]) for x in walk(c["a"][0])):
                        f["class_body_comprehension_with_closure_over_its_variable"] = True
    return f
