"""C02 helpers: Python mirror of spec/PyLongArith.tla (reference semantics + the transcribed
fast paths of Utility/Optimize.c), the source-site generator, operand grids and observation encoding.

The mirror is validated cell by cell against TLC on the scaled instance (SHIFT=3 ...) and then
evaluated at the real parameters (SHIFT=30, 64-bit long, 53-bit mantissa), where TLC cannot go.

Result strings (identical in the spec and here):
  i:<v>  exact int | b:<0|1> bool | f:nan | f:inf:<+|-> | f:fin:<+|->:<n>:<d>  (value n/2^d, normalised)
  e:<ExceptionType> | g  (delegated to the generic PyNumber_* / RichCompare protocol = CPython itself)
  u  (not decided by the spec) | UB:<what>  (the transcribed C code would leave defined behaviour)
"""
import math


class Params(object):
    def __init__(self, SHIFT, LONG, LLONG, CBITS, MANT, EMAX):
        self.SHIFT, self.LONG, self.LLONG, self.CBITS, self.MANT, self.EMAX = SHIFT, LONG, LLONG, CBITS, MANT, EMAX


REAL = Params(30, 64, 64, 30, 53, 1024)

# --------------------------------------------------------------------------------------------
# floats: ("nan",) | ("inf", s) | ("fin", s, n, d)   value = s * n / 2**d, n >= 0, d >= 0, normalised

NAN = ("nan",)
EMIN = -1021     # real doubles; never reached on the scaled instance


def norm(s, n, d):
    if n == 0:
        return ("fin", s, 0, 0)
    while d > 0 and n % 2 == 0:
        n //= 2
        d -= 1
    return ("fin", s, n, d)


def bitlen(n):
    return n.bit_length()       # n >= 0; the spec counts halvings


def round_fin(P, s, n, d):
    """round n/2^d to MANT significant bits (half-even); ('inf', s) when the result reaches 2^EMAX"""
    bl = bitlen(n)
    if bl > P.MANT:
        sh = bl - P.MANT
        q = n // 2 ** sh
        rem = n - q * 2 ** sh
        half = 2 ** (sh - 1)
        if rem > half or (rem == half and q % 2 == 1):
            q += 1
        n = q * 2 ** sh
    if bitlen(n) - d > P.EMAX:
        return ("inf", s)
    return norm(s, n, d)


def round_rat(P, s, p, q):
    """correctly rounded p/q (p >= 0, q > 0)"""
    if p == 0:
        return ("fin", s, 0, 0)
    k = P.MANT - (bitlen(p) - bitlen(q))

    def quot(k):
        num, den = (p * 2 ** k, q) if k >= 0 else (p, q * 2 ** (-k))
        return num // den, num - (num // den) * den, den
    t, rem, den = quot(k)
    if t >= 2 ** P.MANT:
        k -= 1
        t, rem, den = quot(k)
    if 2 * rem > den or (2 * rem == den and t % 2 == 1):
        t += 1
    n, d = (t, k) if k >= 0 else (t * 2 ** (-k), 0)
    if bitlen(n) - d > P.EMAX:
        return ("inf", s)
    return norm(s, n, d)


def is_zero(f):
    return f[0] == "fin" and f[2] == 0


def fneg(f):
    if f[0] == "nan":
        return f
    if f[0] == "inf":
        return ("inf", -f[1])
    return ("fin", -f[1], f[2], f[3])


def fsign(f):
    return f[1]


def ieee_add(P, a, b):
    if a[0] == "nan" or b[0] == "nan":
        return NAN
    if a[0] == "inf":
        return NAN if (b[0] == "inf" and b[1] != a[1]) else a
    if b[0] == "inf":
        return b
    D = max(a[3], b[3])
    v = a[1] * a[2] * 2 ** (D - a[3]) + b[1] * b[2] * 2 ** (D - b[3])
    if v == 0:
        # exact zero sum: -0 only if both operands are zeros of negative sign
        s = -1 if (is_zero(a) and is_zero(b) and a[1] < 0 and b[1] < 0) else 1
        return ("fin", s, 0, 0)
    return round_fin(P, 1 if v > 0 else -1, abs(v), D)


def ieee_sub(P, a, b):
    return ieee_add(P, a, fneg(b))


def ieee_mul(P, a, b):
    if a[0] == "nan" or b[0] == "nan":
        return NAN
    s = a[1] * b[1]
    if a[0] == "inf" or b[0] == "inf":
        return NAN if (is_zero(a) or is_zero(b)) else ("inf", s)
    return round_fin(P, s, a[2] * b[2], a[3] + b[3])


def ieee_div(P, a, b):
    if a[0] == "nan" or b[0] == "nan":
        return NAN
    s = a[1] * b[1]
    if a[0] == "inf":
        return NAN if b[0] == "inf" else ("inf", s)
    if b[0] == "inf":
        return ("fin", s, 0, 0)
    if is_zero(b):
        return NAN if is_zero(a) else ("inf", s)
    return round_rat(P, s, a[2] * 2 ** b[3], b[2] * 2 ** a[3])


def c_fmod(P, a, b):
    """C fmod: sign of the dividend, exact"""
    if a[0] == "nan" or b[0] == "nan" or a[0] == "inf" or is_zero(b):
        return NAN
    if b[0] == "inf":
        return a
    D = max(a[3], b[3])
    A, B = a[2] * 2 ** (D - a[3]), b[2] * 2 ** (D - b[3])
    return norm(a[1], A % B, D)


def py_style_mod(P, a, b):
    """CPython float_rem after fmod:  if (mod) { if ((wx < 0) != (mod < 0)) mod += wx; } else copysign(0, wx);  b != 0"""
    m = c_fmod(P, a, b)
    if m[0] == "nan":
        return m
    if not is_zero(m):            # `if (result)`
        if (m[1] < 0) != (b[1] < 0):
            m = ieee_add(P, m, b)
        return m
    return ("fin", b[1], 0, 0)    # copysign(0.0, b)


def c_style_mod(P, a, b):
    """PyFloatBinop:  result = fmod(a, b); if (result) result += ((result < 0) ^ (b < 0)) * b; else copysign(0.0, b)"""
    m = c_fmod(P, a, b)
    if m[0] == "nan":
        return m                  # nan is true in C; nan + anything = nan
    if not is_zero(m):
        flag = (m[1] < 0) != (b[1] < 0)
        term = ieee_mul(P, ("fin", 1, 1 if flag else 0, 0), b)
        return ieee_add(P, m, term)
    return ("fin", b[1], 0, 0)


def int_to_float(P, v):
    """(double) v with rounding; None when |v| rounds to >= 2^EMAX (PyLong_AsDouble: OverflowError)"""
    r = round_fin(P, -1 if v < 0 else 1, abs(v), 0)
    return None if r[0] == "inf" else r


def cmp_exact_eq(v, f):
    """Python's exact int == float"""
    if f[0] != "fin":
        return False
    return f[3] == 0 and f[1] * f[2] == v or (v == 0 and f[2] == 0)


def feq(a, b):
    if a[0] == "nan" or b[0] == "nan":
        return False
    if a[0] == "inf" or b[0] == "inf":
        return a == b
    return (a[2] == 0 and b[2] == 0) or a == b


def fmt_f(f):
    if f[0] == "nan":
        return "f:nan"
    if f[0] == "inf":
        return "f:inf:" + ("+" if f[1] > 0 else "-")
    if f[2] != 0 and bitlen(f[2]) - f[3] < EMIN:
        return "u"                 # below the normal range: subnormals are not modelled
    return "f:fin:%s:%d:%d" % ("+" if f[1] > 0 else "-", f[2], f[3])


def fmt_b(b):
    return "b:1" if b else "b:0"


def fmt_i(v):
    return "i:%d" % v


# --------------------------------------------------------------------------------------------
# integers

def trunc_div(a, b):
    q = abs(a) // abs(b)
    return q if (a < 0) == (b < 0) else -q


def floor_div(a, b):
    q = trunc_div(a, b)
    return q - 1 if (a - q * b) != 0 and ((a < 0) != (b < 0)) else q


def floor_mod(a, b):
    return a - floor_div(a, b) * b


def bit_op(op, a, b):
    """infinite two's complement, bit by bit from the lowest bit (the spec's recursion, unrolled)"""
    res, w = 0, 1
    while True:
        if op == "And":
            if a == 0 or b == 0:
                return res
            if a == -1:
                return res + w * b
            if b == -1:
                return res + w * a
        elif op == "Or":
            if a == 0:
                return res + w * b
            if b == 0:
                return res + w * a
            if a == -1 or b == -1:
                return res - w
        else:
            if a == 0:
                return res + w * b
            if b == 0:
                return res + w * a
            if a == -1 and b == -1:
                return res
        la, lb = a - 2 * floor_div(a, 2), b - 2 * floor_div(b, 2)
        res += w * {"And": la * lb, "Or": max(la, lb), "Xor": (la + lb) % 2}[op]
        a, b, w = floor_div(a, 2), floor_div(b, 2), 2 * w


def ndigits(P, v):
    return (abs(v).bit_length() + P.SHIFT - 1) // P.SHIFT


def fits(bits, v):
    return -(2 ** (bits - 1)) <= v <= 2 ** (bits - 1) - 1


def wrap(bits, v):
    m = 2 ** bits
    r = v - floor_div(v, m) * m
    return r - m if r >= 2 ** (bits - 1) else r


ARITH = ("Add", "Subtract", "Multiply", "Remainder", "TrueDivide", "FloorDivide", "Or", "Xor", "And", "Rshift", "Lshift")
CMP = ("Eq", "Ne")
SYM = {"Add": "+", "Subtract": "-", "Multiply": "*", "Remainder": "%", "TrueDivide": "/", "FloorDivide": "//",
       "Or": "|", "Xor": "^", "And": "&", "Rshift": ">>", "Lshift": "<<", "Eq": "==", "Ne": "!="}


def int_ref(P, op, a, b):
    """Python semantics of  a op b  on ints (b is a valid shift count for shifts)"""
    if op == "Add":
        return fmt_i(a + b)
    if op == "Subtract":
        return fmt_i(a - b)
    if op == "Multiply":
        return fmt_i(a * b)
    if op in ("Remainder", "FloorDivide", "TrueDivide") and b == 0:
        return "e:ZeroDivisionError"
    if op == "Remainder":
        return fmt_i(floor_mod(a, b))
    if op == "FloorDivide":
        return fmt_i(floor_div(a, b))
    if op == "TrueDivide":
        r = round_rat(P, 1 if (a < 0) == (b < 0) else -1, abs(a), abs(b))
        if a == 0:
            r = ("fin", 1 if b > 0 else -1, 0, 0)       # 0 / -3 is -0.0 in CPython
        return "e:OverflowError" if r[0] == "inf" else fmt_f(r)
    if op in ("Or", "Xor", "And"):
        return fmt_i(bit_op(op, a, b))
    if op == "Rshift":
        return "e:ValueError" if b < 0 else fmt_i(floor_div(a, 2 ** b))
    if op == "Lshift":
        return "e:ValueError" if b < 0 else fmt_i(a * 2 ** b)
    if op == "Eq":
        return fmt_b(a == b)
    if op == "Ne":
        return fmt_b(a != b)
    raise ValueError(op)


def float_ref(P, op, a, b):
    """Python semantics of  a op b  on two floats"""
    if op == "Add":
        return fmt_f(ieee_add(P, a, b))
    if op == "Subtract":
        return fmt_f(ieee_sub(P, a, b))
    if op == "Multiply":
        return fmt_f(ieee_mul(P, a, b))
    if op in ("TrueDivide", "Remainder", "FloorDivide") and is_zero(b):
        return "e:ZeroDivisionError"
    if op == "TrueDivide":
        return fmt_f(ieee_div(P, a, b))
    if op == "Remainder":
        return fmt_f(py_style_mod(P, a, b))
    if op == "FloorDivide":
        return "u"
    if op == "Eq":
        return fmt_b(feq(a, b))
    if op == "Ne":
        return fmt_b(not feq(a, b))
    return "e:TypeError"          # | ^ & >> << on floats


# values: ("int", v) | ("bool", v) | ("float", f) | ("other", tag)

def ref2(P, op, a, b):
    """reference a op b"""
    ka, kb = a[0], b[0]
    if ka == "other" or kb == "other":
        return "g"
    ia, ib = ka in ("int", "bool"), kb in ("int", "bool")
    if ia and ib:
        return int_ref(P, op, a[1], b[1])
    if op in CMP:
        if ia:
            eq = cmp_exact_eq(a[1], b[1])
        elif ib:
            eq = cmp_exact_eq(b[1], a[1])
        else:
            eq = feq(a[1], b[1])
        return fmt_b(eq if op == "Eq" else not eq)
    if op in ("Or", "Xor", "And", "Rshift", "Lshift"):
        return "e:TypeError"
    fa = int_to_float(P, a[1]) if ia else a[1]
    fb = int_to_float(P, b[1]) if ib else b[1]
    if fa is None or fb is None:
        return "e:OverflowError"
    return float_ref(P, op, fa, fb)


BASE_FLOAT_CONSTS = [("fin", 1, 0, 0), ("fin", -1, 0, 0), ("fin", 1, 1, 0), ("fin", 1, 1, 1), ("fin", -1, 3, 1), ("fin", 1, 2, 0)]
FLOAT_OPS = ("Add", "Subtract", "Multiply", "TrueDivide", "Remainder", "FloorDivide", "Eq", "Ne", "And")


def bnd_float_consts(P):
    """spec: BndFloatConsts - the representable integral doubles 2^e-1 .. 2^e+2 around the guard / representation
    boundaries e in {SHIFT, 2 SHIFT, MANT, MANT+1, LONG-1}, both signs"""
    mags = sorted({2 ** e + d for e in (P.SHIFT, 2 * P.SHIFT, P.MANT, P.MANT + 1, P.LONG - 1) for d in (-1, 0, 1, 2)})
    return [("fin", s, m, 0) for m in mags if round_fin(P, 1, m, 0) == ("fin", 1, m, 0) for s in (1, -1)]


def float_helper_ops(P):
    """spec: FloatHelperOps"""
    return [op for op in FLOAT_OPS if select(P, op, "CObj", "float", ("fin", 1, 1, 0)) == "PyFloatBinop"]


def float_sites(P):
    """spec: the float-constant part of Sites -> {(op, order, constant)}"""
    out = {(op, order, f) for op in FLOAT_OPS for order in ("ObjC", "CObj") for f in BASE_FLOAT_CONSTS}
    out |= {(op, order, f) for op in float_helper_ops(P) for order in ("ObjC", "CObj") for f in bnd_float_consts(P)}
    return out


def round_collision(P, site, x):
    """spec: RoundCollision - int operand unequal to the float constant whose conversion to double equals it"""
    c = site["cv"]
    if c[0] != "float" or x[0] != "int" or c[1][0] != "fin" or cmp_exact_eq(x[1], c[1]):
        return False
    f = int_to_float(P, x[1])
    return f is not None and feq(f, c[1])


def ref(P, site, x):
    c = site["cv"]
    return ref2(P, site["op"], x, c) if site["order"] == "ObjC" else ref2(P, site["op"], c, x)


# --------------------------------------------------------------------------------------------
# helper selection (Optimize.py: optimise_numeric_binop + the method handlers; ExprNodes.py: py_operation_function)

def select(P, op, order, ckind, cval, shift_max=None):
    """which helper family serves  x op c / c op x  for an untyped (or `int`-annotated) x"""
    if ckind == "int":
        big = abs(cval) > 2 ** P.CBITS
        if op in ("Rshift", "Lshift"):
            ok = order == "ObjC" and 1 <= cval <= (shift_max if shift_max is not None else P.LLONG - 1) and not big
            return "PyLongBinop" if ok else "generic"
        if op in ("Remainder", "TrueDivide", "FloorDivide"):
            return "PyLongBinop" if (order == "ObjC" and cval != 0 and not big) else "generic"
        if op in CMP:
            return "PyObjectCompare" if big else "PyLongCompare"
        if not big:
            return "PyLongBinop"
        return "PyNumberBinop" if op in ("Add", "Subtract", "Multiply", "Xor", "And", "Or") else "generic"
    # float constant
    if op in ("Add", "Subtract", "Eq", "Ne"):
        return "PyFloatBinop"
    if op in ("TrueDivide", "Remainder"):
        if order == "ObjC":
            zero = cval[0] == "fin" and cval[2] == 0
            big = cval[0] != "fin" or (cval[3] == 0 and cval[2] > 2 ** P.MANT)
            return "generic" if (zero or big) else "PyFloatBinop"
        return "PyFloatBinop"
    if op in ("Multiply", "Xor", "And", "Or"):
        return "PyNumberBinop"
    return "generic"


# --------------------------------------------------------------------------------------------
# transcriptions.  Each returns (result string, path)

def _ub(what):
    return "UB:" + what


def long_binop(P, op, order, x, c):
    """__Pyx_PyLong_<Op><ObjC|CObj>  (Utility/Optimize.c: PyLongBinop)"""
    if x[0] == "int":
        return long_unpacked(P, op, order, x[1], c)
    if x[0] == "float" and op in ("Add", "Subtract", "Multiply", "TrueDivide"):
        fc = int_to_float(P, c)
        a, b = (x[1], fc) if order == "ObjC" else (fc, x[1])
        if order == "CObj" and op == "TrueDivide" and is_zero(b):
            return "e:ZeroDivisionError", "float"
        f = {"Add": ieee_add, "Subtract": ieee_sub, "Multiply": ieee_mul, "TrueDivide": ieee_div}[op]
        return fmt_f(f(P, a, b)), "float"
    return "g", "generic"


def _c_floor_div(bits, a, b):
    if b == 0:
        return _ub("div0")
    if a == -(2 ** (bits - 1)) and b == -1:
        return _ub("min/-1")
    q = trunc_div(a, b)
    r = a - q * b
    if r != 0 and ((r < 0) != (b < 0)):      # (r ^ b) < 0
        q -= 1
    return fmt_i(q)


def _c_mod(bits, a, b):
    if b == 0:
        return _ub("mod0")
    if a == -(2 ** (bits - 1)) and b == -1:
        return _ub("min%-1")
    r = a - trunc_div(a, b) * b
    if r != 0 and ((r < 0) != (b < 0)):
        r += b
    return fmt_i(r)


def long_unpacked(P, op, order, xv, c):
    objc = order == "ObjC"
    # special cases for 0
    if xv == 0:
        if not objc and op in ("Remainder", "TrueDivide", "FloorDivide"):
            return "e:ZeroDivisionError", "zero"          # zerodivision_check (cdivision off)
        if not objc and op in ("Add", "Subtract", "Or", "Xor", "Rshift", "Lshift"):
            return fmt_i(c), "zero"                        # return op1
        if not objc and op in ("Multiply", "And"):
            return fmt_i(0), "zero"                        # return op2
        if objc and op in ("Add", "Or", "Xor"):
            return fmt_i(c), "zero"                        # return op2
        if objc and op == "Subtract":
            return fmt_i(-c), "zero"
        if objc and op in ("Multiply", "Remainder", "And", "Rshift", "Lshift", "FloorDivide"):
            return fmt_i(0), "zero"                        # return op1
    pos = xv > 0
    base = 2 ** P.SHIFT
    if op == "And" and 0 <= c < base:
        last = abs(xv) % base
        return fmt_i(bit_op("And", c, last if pos else base - last)), "and1"
    size = ndigits(P, xv)
    extra = P.CBITS if op == "Multiply" else 0
    if size == 1:
        mode = "long"
    else:
        mode = "slot"
        if 2 <= size <= 4:
            if P.LONG - 1 > size * P.SHIFT + extra and (op != "TrueDivide" or (size - 1) * P.SHIFT < P.MANT):
                mode = "long"
            elif op != "TrueDivide" and P.LLONG - 1 > size * P.SHIFT + extra:
                mode = "llong"
    a, b = (xv, c) if objc else (c, xv)
    if mode == "slot":
        return int_ref(P, op, a, b), "slot"
    if mode == "long":
        if op == "Multiply":
            mode = "llong"
        elif op == "Remainder":
            return _c_mod(P.LONG, a, b), "long"
        elif op == "TrueDivide":
            if P.LONG <= P.MANT or abs(xv) <= 2 ** P.MANT or size <= (P.MANT - 1) // P.SHIFT:
                if b == 0:
                    return _ub("fdiv0"), "long"
                return fmt_f(ieee_div(P, int_to_float(P, a), int_to_float(P, b))), "long"
            return int_ref(P, op, a, b), "slot"
        elif op == "FloorDivide":
            return _c_floor_div(P.LONG, a, b), "long"
        elif op == "Rshift":
            if b >= P.LONG:
                return fmt_i(-1 if a < 0 else 0), "long"
            return fmt_i(floor_div(a, 2 ** b)), "long"
        elif op == "Lshift":
            if b >= P.LONG:
                return _ub("shift-count"), "long"
            xr = wrap(P.LONG, a * 2 ** b)
            if not (a == floor_div(xr, 2 ** b)) and a != 0:
                mode = "llong"
            else:
                return fmt_i(xr), "long"
        else:
            v = {"Add": a + b, "Subtract": a - b}.get(op)
            if v is None:
                v = bit_op(op, a, b)
            if not fits(P.LONG, v):
                return _ub("long-overflow"), "long"
            return fmt_i(v), "long"
    # calculate_long_long
    if op == "Remainder":
        return _c_mod(P.LLONG, a, b), "llong"
    if op == "FloorDivide":
        return _c_floor_div(P.LLONG, a, b), "llong"
    if op == "Rshift":
        if b >= P.LLONG:
            return fmt_i(-1 if a < 0 else 0), "llong"
        return fmt_i(floor_div(a, 2 ** b)), "llong"
    if op == "Lshift":
        if b >= P.LLONG:
            return _ub("shift-count"), "llong"
        xr = wrap(P.LLONG, a * 2 ** b)
        if a != floor_div(xr, 2 ** b):
            return "g", "fallback"
        return fmt_i(xr), "llong"
    v = {"Add": a + b, "Subtract": a - b, "Multiply": a * b}.get(op)
    if v is None:
        v = bit_op(op, a, b)
    if not fits(P.LLONG, v):
        return _ub("llong-overflow"), "llong"
    return fmt_i(v), "llong"


def long_compare(P, op, order, x, c):
    """__Pyx_PyLong_[Bool]<Eq|Ne><ObjC|CObj>  (PyLongCompare)"""
    eqr = (lambda e: fmt_b(e if op == "Eq" else not e))
    if x[0] == "int":
        xv = x[1]
        if c == 0:
            return eqr(xv == 0), "cmp-zero"
        if c < 0:
            if xv >= 0:
                return eqr(False), "cmp-sign"
        elif xv < 0:
            return eqr(False), "cmp-sign"
        u = abs(c)
        size = ndigits(P, xv)
        base = 2 ** P.SHIFT
        digs = [(abs(xv) // base ** i) % base for i in range(max(size, 6))]
        for k in (4, 3, 2, 1):
            if P.SHIFT * k < P.LONG and (u // base ** k) != 0:
                unequal = size != k + 1 or any(digs[i] != (u // base ** i) % base for i in range(k + 1))
                return eqr(not unequal), "cmp-digits%d" % (k + 1)
        unequal = size != 1 or digs[0] != u % base
        return eqr(not unequal), "cmp-digits1"
    if x[0] == "float":
        return eqr(feq(int_to_float(P, c), x[1])), "cmp-float"
    return "g", "generic"


def float_binop(P, op, order, x, c):
    """__Pyx_PyFloat_[Bool]<Op><ObjC|CObj>  (PyFloatBinop); c is the float constant"""
    objc = order == "ObjC"
    needs_zero_check = (not objc) and op in ("TrueDivide", "Remainder")
    if x[0] == "float":
        fv, path = x[1], "fb-float"
        if needs_zero_check and is_zero(fv):
            return "e:ZeroDivisionError", path
    elif x[0] == "int":
        xv = x[1]
        size = ndigits(P, xv)
        if xv == 0:
            fv, path = ("fin", 1, 0, 0), "fb-zero"
            if needs_zero_check:
                return "e:ZeroDivisionError", path
        elif size == 1:
            fv, path = int_to_float(P, xv), "fb-compact"
        else:
            fv = None
            for k in (2, 3, 4):
                if size <= k and P.LONG > k * P.SHIFT and (P.LONG < P.MANT or (k - 1) * P.SHIFT < P.MANT):
                    cand = round_fin(P, 1, abs(xv), 0)
                    small = cand[0] == "fin" and _lt_pow2(cand, P.MANT)
                    if P.LONG < P.MANT or k * P.SHIFT < P.MANT or small:
                        fv, path = (cand if xv > 0 else fneg(cand)), "fb-join"
                        break
            if fv is None:
                if op in CMP:
                    eq = cmp_exact_eq(xv, c)
                    return fmt_b(eq if op == "Eq" else not eq), "fb-richcmp"
                fv, path = int_to_float(P, xv), "fb-asdouble"
                if fv is None:
                    return "e:OverflowError", path
    else:
        return "g", "generic"
    a, b = (fv, c) if objc else (c, fv)
    if op in CMP:
        eq = feq(a, b)
        return fmt_b(eq if op == "Eq" else not eq), path
    if op == "Remainder":
        if is_zero(b):
            return _ub("fmod0"), path
        return fmt_f(c_style_mod(P, a, b)), ("fb-rem-infdiv" if b[0] == "inf" else path)
    f = {"Add": ieee_add, "Subtract": ieee_sub, "TrueDivide": ieee_div}[op]
    return fmt_f(f(P, a, b)), path


def _lt_pow2(f, k):
    """finite non-negative f < 2^k"""
    return f[2] < 2 ** (k + f[3])


def _is_compact(P, v):
    return abs(v) < 2 ** P.SHIFT


def number_binop(P, op, t1, t2, a, b):
    """__Pyx__PyNumber_<Op>_<t1>_<t2>(op1, op2)  (PyNumberBinop); t in object/int/float, op in + - * ^ & |"""
    def isfloat(v, t):
        return True if t == "float" else v[0] == "float"

    def isint(v, t):
        return True if t == "int" else v[0] == "int"
    arith = op in ("Add", "Subtract", "Multiply")
    ieee = {"Add": ieee_add, "Subtract": ieee_sub, "Multiply": ieee_mul}
    if t1 in ("object", "float") and arith and isfloat(a, t1):
        if t2 in ("object", "float") and isfloat(b, t2):
            return fmt_f(ieee[op](P, a[1], b[1])), "nb-ff"
        return _nb_xfloat(P, op, t2, a, b, isint, ieee)
    if t1 in ("object", "int") and isint(a, t1):
        if t2 in ("object", "int") and isint(b, t2):
            av, bv = a[1], b[1]
            if op == "Multiply":
                if _is_compact(P, av):
                    if av == 0:
                        return _same(a), "nb-ii-zero1"
                    if _is_compact(P, bv):
                        if bv == 0:
                            return _same(b), "nb-ii-zero2"
                        return fmt_i(av * bv), "nb-ii-compact"
                elif bv == 0:
                    return _same(b), "nb-ii-zero2"
            else:
                if _is_compact(P, av):
                    if av == 0 and op in ("Add", "Or", "Xor"):
                        return _same(b), "nb-ii-zero1"
                    if av == 0 and op == "And":
                        return _same(a), "nb-ii-zero1"
                    if _is_compact(P, bv):
                        if bv == 0 and op in ("Add", "Subtract", "Or", "Xor"):
                            return _same(a), "nb-ii-zero2"
                        if bv == 0 and op == "And":
                            return _same(b), "nb-ii-zero2"
                        v = {"Add": av + bv, "Subtract": av - bv}.get(op)
                        return fmt_i(bit_op(op, av, bv) if v is None else v), "nb-ii-compact"
                elif bv == 0:
                    return _same(a if op in ("Add", "Subtract", "Or", "Xor") else b), "nb-ii-zero2"
            return int_ref(P, op, av, bv), "nb-ii-slot"
        # xint
        if t2 in ("object", "float") and arith and isfloat(b, t2):
            av = a[1]
            if _is_compact(P, av):
                if op == "Add" and av == 0:
                    return fmt_f(b[1]), "nb-xint-float0"
                fa = int_to_float(P, av)
            else:
                fa = int_to_float(P, av)
                if fa is None:
                    return "e:OverflowError", "nb-xint-float"
            return fmt_f(ieee[op](P, fa, b[1])), "nb-xint-float"
        if b[0] == "bool" or (b[0] == "float"):
            # reverse slot of type(op2): bool inherits the int slots; float has no & | ^ slots
            return ref2(P, op, a, b), "nb-reverse"
        return "g", "nb-reverse"
    return "g", "generic"


def _same(v):
    """the operand object itself is returned"""
    return fmt_b(v[1]) if v[0] == "bool" else fmt_i(v[1])


def _nb_xfloat(P, op, t2, a, b, isint, ieee):
    if t2 in ("object", "int") and isint(b, t2):
        bv = b[1]
        if _is_compact(P, bv):
            if op in ("Add", "Subtract") and bv == 0:
                return fmt_f(a[1]), "nb-xfloat-int0"
            fb = int_to_float(P, bv)
        else:
            fb = int_to_float(P, bv)
            if fb is None:
                return "e:OverflowError", "nb-xfloat"
        if op == "Multiply" and is_zero(a[1]):
            return fmt_f(a[1]), "nb-xfloat-mul0"
        return fmt_f(ieee[op](P, a[1], fb)), "nb-xfloat"
    if t2 == "object" and b[0] == "bool":
        return ref2(P, op, a, b), "nb-xfloat-slot"         # PyLong_Check: float's own slot
    return "g", "nb-reverse"


def object_compare(P, op, t1, t2, a, b):
    """__Pyx_PyObject_Compare[Bool]<Eq|Ne>_<t1>_<t2>  (PyObjectCompare), Eq/Ne only"""
    eqr = (lambda e: fmt_b(e if op == "Eq" else not e))

    def isfloat(v, t):
        return True if t == "float" else v[0] == "float"

    def isint(v, t):
        return True if t == "int" else v[0] == "int"

    def float_int(f, iv):
        if _is_compact(P, iv):
            return eqr(feq(f, int_to_float(P, iv))), "oc-fi-compact"
        if f[0] != "fin":
            return eqr(False), "oc-fi-nonfinite"
        if f[1] > 0 or f[2] == 0:                    # float >= 0.
            if iv < 0:
                return eqr(False), "oc-fi-sign"
            if _lt_pow2(f, P.SHIFT):
                return eqr(False), "oc-fi-mag"
        else:
            if iv > 0:
                return eqr(False), "oc-fi-sign"
            if _lt_pow2(f, P.SHIFT):                 # float > -2^SHIFT
                return eqr(False), "oc-fi-mag"
        return "g", "oc-richcmp"
    if t1 in ("object", "float") and isfloat(a, t1):
        if t2 in ("object", "float") and isfloat(b, t2):
            return eqr(feq(a[1], b[1])), "oc-ff"
        if t2 in ("object", "int") and isint(b, t2):
            return float_int(a[1], b[1])
        return "g", "oc-richcmp"
    if t1 in ("object", "int") and isint(a, t1):
        if t2 in ("object", "int") and isint(b, t2):
            av, bv = a[1], b[1]
            same_tag = ndigits(P, av) == ndigits(P, bv) and ((av > 0) - (av < 0)) == ((bv > 0) - (bv < 0))
            base = 2 ** P.SHIFT
            if same_tag:
                n = ndigits(P, av)
                eq = all((abs(av) // base ** i) % base == (abs(bv) // base ** i) % base for i in range(n))
                return eqr(eq), "oc-ii-digits"
            return eqr(False), "oc-ii-tag"
        if t2 in ("object", "float") and isfloat(b, t2):
            return float_int(b[1], a[1])
        return "g", "oc-richcmp"
    return "g", "oc-richcmp"


def fast(P, site, x):
    """(result, path) of the helper that serves the site"""
    fam, op, order, c = site["family"], site["op"], site["order"], site["cv"]
    if fam == "PyLongBinop":
        return long_binop(P, op, order, x, c[1])
    if fam == "PyLongCompare":
        return long_compare(P, op, order, x, c[1])
    if fam == "PyFloatBinop":
        return float_binop(P, op, order, x, c[1])
    if fam == "PyNumberBinop":
        tc = "float" if c[0] == "float" else "int"
        return number_binop(P, op, "object", tc, x, c) if order == "ObjC" else number_binop(P, op, tc, "object", c, x)
    if fam == "PyObjectCompare":
        return object_compare(P, op, "object", "int", x, c) if order == "ObjC" else object_compare(P, op, "int", "object", c, x)
    return "g", "generic"


# --------------------------------------------------------------------------------------------
# sites: one compiled function per (op, order, constant, in-place, context, shape)

def fval(x):
    """Python float -> model float"""
    if x != x:
        return NAN
    if x in (math.inf, -math.inf):
        return ("inf", 1 if x > 0 else -1)
    n, d = abs(x).as_integer_ratio()
    return norm(1 if math.copysign(1.0, x) > 0 else -1, n, d.bit_length() - 1)


def model_value(v):
    if type(v) is bool:
        return ("bool", int(v))
    if type(v) is int:
        return ("int", v)
    if type(v) is float:
        return ("float", fval(v))
    return ("other", type(v).__name__)


def make_site(P, op, order, c, inplace=False, ctx="value", shape="obj", shift_max=None):
    ckind = "float" if isinstance(c, float) else "int"
    cv = model_value(c)
    fam = select(P, op, order, ckind, cv[1], shift_max=shift_max)
    return {"op": op, "order": order, "ckind": ckind, "c": repr(c), "cv": cv, "inplace": inplace, "ctx": ctx,
            "shape": shape, "family": fam, "cpy": c}


def site_desc(site):
    return {"op": site["op"], "order": site["order"], "ckind": site["ckind"], "c": site["c"], "inplace": site["inplace"],
            "ctx": site["ctx"], "shape": site["shape"], "family": site["family"]}


def render(site, name):
    c = site["c"]
    lit = "(%s)" % c if c.startswith("-") else c
    sym = SYM[site["op"]]
    arg = "x"
    if site["shape"] == "pyint":          # a value the compiler knows to be a Python int
        body = render(dict(site, shape="obj"), name).split("\n", 1)[1].replace("x", "y")
        return "def %s(x):\n    y = int(x)\n%s" % (name, body)
    expr = "x %s %s" % (sym, lit) if site["order"] == "ObjC" else "%s %s x" % (lit, sym)
    if site["inplace"]:
        return "def %s(%s):\n    x %s= %s\n    return x\n" % (name, arg, sym, lit)
    if site["ctx"] == "bool":
        return "def %s(%s):\n    if %s:\n        return 1\n    return 0\n" % (name, arg, expr)
    return "def %s(%s):\n    return %s\n" % (name, arg, expr)


def real_sites(tier):
    P = REAL
    B = 2 ** 30
    ic = [0, 1, -1, 2, -3, 7, 255, -256, 32768, B - 1, B, -B]
    fc = [0.0, -0.0, 1.0, 0.5, -1.5, 2.0]
    oc = [B + 1, -(B + 1), 2 ** 40 + 3, -(2 ** 62)]
    sc = [0, 1, 2, 29, 30, 31, 33, 59, 60, 61, 62, 63, 64]
    ann = [0, 1, -3, B]
    if tier != "quick":
        ic += [-2, 3, 10, -10, 256, 32767, -32768, 2 ** 29, -(B - 1), 65535, 12345678]
        fc += [3.0, -1.0, 0.1, 4503599627370496.0, 9007199254740992.0, 1e16, 1e300, -2.5]
        oc += [2 ** 31, -(2 ** 40), 2 ** 64, 2 ** 30 + 2 ** 15]
        sc += [3, 15, 28, 32, 45, 58]
        ann += [-1, 2, 7, -B, B - 1]
    arith = [o for o in ARITH if o not in ("Rshift", "Lshift")]
    sites = []
    for c in ic + oc:
        for op in arith:
            sites.append(make_site(P, op, "ObjC", c))
            sites.append(make_site(P, op, "ObjC", c, inplace=True))
            if op not in ("Remainder", "TrueDivide", "FloorDivide") or c in (7, -3):
                sites.append(make_site(P, op, "CObj", c))
        for op in CMP:
            for order in ("ObjC", "CObj"):
                sites.append(make_site(P, op, order, c))
                sites.append(make_site(P, op, order, c, ctx="bool"))
    for c in sc:
        for op in ("Rshift", "Lshift"):
            sites.append(make_site(P, op, "ObjC", c))
            sites.append(make_site(P, op, "ObjC", c, inplace=True))
    # (c << x and c >> x are not optimised and not bounded stimuli: not generated)
    for c in fc:
        for op in ("Add", "Subtract", "Multiply", "TrueDivide", "Remainder", "FloorDivide"):
            sites.append(make_site(P, op, "ObjC", c))
            sites.append(make_site(P, op, "ObjC", c, inplace=True))
            sites.append(make_site(P, op, "CObj", c))
        for op in CMP:
            for order in ("ObjC", "CObj"):
                sites.append(make_site(P, op, order, c))
                sites.append(make_site(P, op, order, c, ctx="bool"))
        sites.append(make_site(P, "And", "ObjC", c))
        sites.append(make_site(P, "Xor", "CObj", c))
    # the spec's boundary family of float constants (BndFloatConsts x FloatHelperOps) at the real parameters
    for f in bnd_float_consts(P):
        c = float(f[1] * f[2])
        for op in float_helper_ops(P):
            new = []
            if op in CMP:
                for order in ("ObjC", "CObj"):
                    new.append(make_site(P, op, order, c))
                    new.append(make_site(P, op, order, c, ctx="bool"))
            else:
                new.append(make_site(P, op, "ObjC", c))
                new.append(make_site(P, op, "CObj", c))
                if tier != "quick":
                    new.append(make_site(P, op, "ObjC", c, inplace=True))
            for s in new:
                s["bnd"] = True
            sites += new
    for c in ann:
        for op in arith + list(CMP):
            sites.append(make_site(P, op, "ObjC", c, shape="pyint"))
        for op in ("Add", "Subtract", "Multiply", "And", "Eq"):
            sites.append(make_site(P, op, "CObj", c, shape="pyint"))
    for c in (1, 31, 62):
        sites.append(make_site(P, "Lshift", "ObjC", c, shape="pyint"))
        sites.append(make_site(P, "Rshift", "ObjC", c, shape="pyint"))
    for i, s in enumerate(sites):
        s["id"] = i
        s["fn"] = "f%d" % i
    return sites


def gen_modules(sites, nmod, prefix="c02m"):
    """-> [(module name, source)] ; sets site['mod']"""
    buckets = [[] for _ in range(nmod)]
    for s in sites:
        k = s["id"] % nmod
        s["mod"] = "%s%d" % (prefix, k)
        buckets[k].append(render(s, s["fn"]))
    return [("%s%d" % (prefix, k), "# cython: language_level=3\n\n" + "\n".join(b)) for k, b in enumerate(buckets)]


_CALL_RE = None


def helpers_in_c(c_text, modname):
    """B3: {function name: sorted list of arithmetic/comparison helpers its generated C body calls}"""
    import re
    out = {}
    pat = re.compile(r"static PyObject \*__pyx_pf_\d+%s_\d*(f\d+)\([^;{]*\) \{\n.*?\n\}\n" % re.escape(modname), re.S)
    hp = re.compile(r"\b(__Pyx_PyLong_(?:Bool)?[A-Z][A-Za-z]+(?:ObjC|CObj)|__Pyx_PyFloat_(?:Bool)?[A-Z][A-Za-z]+(?:ObjC|CObj)|"
                    r"__Pyx_PyNumber_\w+|PyNumber_\w+|PyObject_RichCompare\w*|__Pyx_PyObject_RichCompare\w*|__Pyx_PyObject_Compare\w+)\(")
    for m in pat.finditer(c_text):
        out[m.group(1)] = sorted(set(hp.findall(m.group(0))))
    return out


def helper_family(names):
    import re
    fams = set()
    for n in names:
        if n.startswith("__Pyx_PyLong_"):
            fams.add("PyLongCompare" if ("Eq" in n or "Ne" in n) else "PyLongBinop")
        elif n.startswith("__Pyx_PyFloat_"):
            fams.add("PyFloatBinop")
        elif n.startswith("__Pyx_PyObject_Compare") and not n.endswith("_object_object"):
            fams.add("PyObjectCompare")
        elif re.match(r"__Pyx_PyNumber_(InPlace)?(Add|Subtract|Multiply|Xor|And|Or)_[a-z]+_[a-z]+$", n):
            fams.add("PyNumberBinop")
        elif n in ("__Pyx_PyNumber_Int", "__Pyx_PyNumber_Long", "__Pyx_PyNumber_Float"):
            pass
        else:
            fams.add("generic")
    return sorted(fams)


# --------------------------------------------------------------------------------------------
# operands

PRELUDE = r'''
import fractions, decimal
class IntSub(int): pass
class FloatSub(float): pass
def _tag(name):
    def f(self, other):
        return (name, type(self).__name__, type(other).__name__, repr(other) if type(other) in (int, float) else "")
    return f
_OPS = ["add", "sub", "mul", "mod", "truediv", "floordiv", "or", "xor", "and", "rshift", "lshift"]
def _mk(name, base, inplace=False):
    d = {}
    for o in _OPS:
        d["__%s__" % o] = _tag(o)
        d["__r%s__" % o] = _tag("r" + o)
        if inplace:
            d["__i%s__" % o] = _tag("i" + o)
    d["__eq__"] = _tag("eq")
    d["__ne__"] = _tag("ne")
    d["__hash__"] = lambda s: 0
    return type(name, (base,), d)
IntOv = _mk("IntOv", int)
FloatOv = _mk("FloatOv", float)
Obj = _mk("Obj", object, inplace=True)
class ROnly:
    "only reflected methods"
for _o in _OPS:
    setattr(ROnly, "__r%s__" % _o, _tag("r" + _o))
class NI:
    "every method declines"
def _ni(self, other): return NotImplemented
for _o in _OPS:
    setattr(NI, "__%s__" % _o, _ni); setattr(NI, "__r%s__" % _o, _ni); setattr(NI, "__i%s__" % _o, _ni)
class Idx:
    def __index__(self): return 3
class EqList:
    "comparison results that are not bools"
    def __init__(self, t): self.t = t
    def __eq__(self, other): return [1] if self.t else []
    def __ne__(self, other): return "" if self.t else "ne"
    __hash__ = None
class EqRaise:
    def __eq__(self, other): raise KeyError("eq")
    def __ne__(self, other): raise IndexError("ne")
    __hash__ = None
'''

OTHER = [  # (expression, usable with sequence-repeating sites only when |c| is small)
    ("IntSub(0)", False), ("IntSub(5)", False), ("IntSub(-7)", False), ("IntSub(2**30)", False), ("IntSub(2**64 + 1)", False),
    ("FloatSub(0.0)", False), ("FloatSub(-0.0)", False), ("FloatSub(1.5)", False), ("FloatSub(-2.0)", False),
    ("IntOv(0)", False), ("IntOv(3)", False), ("IntOv(-2**31)", False), ("FloatOv(0.0)", False), ("FloatOv(2.5)", False),
    ("Obj()", False), ("ROnly()", False), ("NI()", False), ("Idx()", False), ("EqList(1)", False), ("EqList(0)", False), ("EqRaise()", False),
    ("None", False), ("(1+2j)", False), ("0j", False), ("fractions.Fraction(1, 2)", False), ("fractions.Fraction(-7, 1)", False),
    ("decimal.Decimal('1.5')", False), ("decimal.Decimal('-0')", False),
    ("'ab'", True), ("'%d'", True), ("'%s and %%'", True), ("[1, 2]", True), ("(1,)", True), ("b'ab'", True), ("bytearray(b'x')", True),
]


def int_grid(rng, tier):
    g = set(range(-10, 11))
    for k in (1, 2, 3, 4):
        for e in (15 * k, 30 * k):
            for d in (-2, -1, 0, 1, 2):
                g.add(2 ** e + d)
                g.add(-(2 ** e + d))
    for e in (29, 31, 32, 33, 45, 52, 53, 54, 59, 61, 62, 63, 64, 65, 89, 119, 121, 150):
        for d in (-1, 0, 1):
            g.add(2 ** e + d)
            g.add(-(2 ** e + d))
    g.update([2 ** 53 + 2, 2 ** 54 + 2, 2 ** 54 + 6, 3 * 2 ** 52 + 1, 2 ** 60 - 2 ** 6 - 1, 2 ** 59 + 2 ** 5 + 1,
              -(2 ** 53 + 3), -(2 ** 55 + 4), 2 ** 1023, -(2 ** 1023), 2 ** 1024 - 2 ** 970, 2 ** 1024 - 2 ** 969, 2 ** 1024, -(2 ** 1024), 2 ** 1100 + 1,
              -(2 ** 1100), 10 ** 30, -(10 ** 40), 0x5555555555555555, -0x2AAAAAAAAAAAAAAA, 0x3FFFFFFF3FFFFFFF, 2 ** 60 + 2 ** 30, 2 ** 90 + 2 ** 60 + 7,
              (2 ** 30 - 1) * 2 ** 30, -(2 ** 30 - 1) * 2 ** 30, 2 ** 61 - 1, -(2 ** 61 - 1)])
    per = 4 if tier == "quick" else 12
    for nd in (1, 2, 3, 4, 5, 8):
        for _ in range(per):
            v = rng.randrange(2 ** (30 * (nd - 1)), 2 ** (30 * nd))
            g.add(v if rng.random() < 0.5 else -v)
    # values just above 2^53 with low bits set (double rounding territory)
    for _ in range(per):
        g.add(rng.randrange(2 ** 53, 2 ** 60) | 1)
        g.add(-(rng.randrange(2 ** 53, 2 ** 57) | 1))
    return sorted(g)


def bnd_near_ints(P):
    """int operands around the boundary float constants: +-(m + d), d = -2..2 (contains the rounding collisions m +- 1)"""
    return sorted({sg * (f[2] + d) for f in bnd_float_consts(P) for d in (-2, -1, 0, 1, 2) for sg in (1, -1)})


def bnd_floats(P):
    return [float(f[1] * f[2]) for f in bnd_float_consts(P)]


BND_OTHER = ("IntSub(2**64 + 1)", "IntSub(5)", "FloatSub(1.5)", "IntOv(3)", "FloatOv(2.5)", "Obj()", "EqList(1)", "None", "'ab'")

FLOATS = [0.0, -0.0, 1.0, -1.0, 0.5, -0.5, 1.5, -1.5, 2.0, 3.0, -2.5, 7.0, 0.1, -0.3, 255.0, 1073741824.0, -1073741824.0, 1073741823.0,
          1073741825.0, 4503599627370496.0, 9007199254740992.0, 9007199254740994.0, 1e16, -1e16, 1e300, -1e300, 5e-324, -5e-324, 2.2250738585072014e-308,
          1.7976931348623157e+308, math.inf, -math.inf, math.nan, 32768.0, 0.75, -3.0, 1e-5]


def enc_value(v):
    """same as the call driver's result encoding (harness/calls.py)"""
    if v is None or isinstance(v, (bool, str)):
        return [type(v).__name__, v] if isinstance(v, bool) else v
    if type(v) is int:
        return v if abs(v) < 2 ** 53 else {"big": str(v)}
    if type(v) is float:
        return ["f", "nan" if v != v else ("inf" if v == math.inf else "-inf" if v == -math.inf else v.hex())]
    if type(v) is complex:
        return ["c", enc_value(v.real), enc_value(v.imag)]
    if type(v) is bytes:
        return ["b", list(v)]
    if type(v) is bytearray:
        return ["ba", list(v)]
    if type(v) is tuple:
        return ["t"] + [enc_value(x) for x in v]
    if type(v) is list:
        return ["l"] + [enc_value(x) for x in v]
    return ["o", type(v).__name__, repr(v)[:200]]


def canon(obs):
    """driver observation -> the spec's result string (ints, bools, floats, exceptions) or o:<json>"""
    import json
    if isinstance(obs, bool):
        return "o:" + json.dumps(obs)
    if isinstance(obs, int):
        return fmt_i(obs)
    if isinstance(obs, dict) and "big" in obs:
        return fmt_i(int(obs["big"]))
    if isinstance(obs, str) and obs.startswith("E:"):
        return "e:" + obs[2:]
    if isinstance(obs, list) and len(obs) == 2 and obs[0] == "bool":
        return fmt_b(obs[1])
    if isinstance(obs, list) and len(obs) == 2 and obs[0] == "f":
        h = obs[1]
        return fmt_f(fval(float(h) if h in ("nan", "inf", "-inf") else float.fromhex(h)))
    return "o:" + json.dumps(obs, sort_keys=True)


def py_eval(site, x):
    """P: what CPython computes for the site's expression (run in the harness process)"""
    import operator
    c = site["cpy"]
    op = site["op"]
    name = {"Add": "add", "Subtract": "sub", "Multiply": "mul", "Remainder": "mod", "TrueDivide": "truediv", "FloorDivide": "floordiv",
            "Or": "or_", "Xor": "xor", "And": "and_", "Rshift": "rshift", "Lshift": "lshift", "Eq": "eq", "Ne": "ne"}[op]
    if site["inplace"]:
        name = "i" + name.rstrip("_") if not name.endswith("_") else "i" + name[:-1]
    f = getattr(operator, name)
    try:
        r = f(x, c) if site["order"] == "ObjC" else f(c, x)
        if site["ctx"] == "bool":
            r = 1 if r else 0
    except BaseException as e:
        return "E:" + type(e).__name__
    return enc_value(r)


# --------------------------------------------------------------------------------------------
# the scaled instance: enumeration identical to spec/PyLongArith.tla (Sites, XSeq) for the cell-by-cell validation

def read_cfg(path):
    """CONSTANTS of a PyLongArith_*.cfg"""
    import re
    vals = {}
    for line in open(path):
        m = re.match(r"\s*(\w+)\s*=\s*(.+?)\s*$", line)
        if not m:
            continue
        k, v = m.group(1), m.group(2)
        if v.startswith("{"):
            vals[k] = [x.strip().strip('"') for x in v.strip("{}").split(",") if x.strip()]
            if all(re.match(r"-?\d+$", x) for x in vals[k]):
                vals[k] = [int(x) for x in vals[k]]
        elif re.match(r"-?\d+$", v):
            vals[k] = int(v)
        else:
            vals[k] = v
    return vals


def _F(s, n, d):
    return ("float", ("fin", s, n, d))


SPECIALS = [("bool", 0), ("bool", 1), _F(1, 0, 0), _F(-1, 0, 0), _F(1, 1, 0), _F(-1, 1, 0), _F(1, 1, 1), _F(-1, 3, 1),
            _F(1, 2, 0), _F(1, 3, 0), _F(-1, 5, 1), _F(1, 7, 0), _F(1, 3, 2), _F(1, 8, 0), _F(1, 9, 0), _F(-1, 9, 0), _F(1, 34, 0),
            _F(1, 64, 0), _F(1, 100, 0), _F(-1, 100, 0), _F(1, 120, 0), _F(1, 1, 4), _F(-1, 1, 5),
            ("float", ("inf", 1)), ("float", ("inf", -1)), ("float", NAN), ("other", "o")]


def parse_const(txt):
    if txt.startswith("i:"):
        return ("int", int(txt[2:]))
    parts = txt.split(":")
    return ("float", ("fin", 1 if parts[2] == "+" else -1, int(parts[3]), int(parts[4])))


def xseq(cfg, chunk):
    B = cfg["XMAX"]
    CH = cfg["CH"]
    nchunks = (2 * B + 1 + CH - 1) // CH
    if chunk == nchunks:
        return SPECIALS
    lo = -B + chunk * CH
    return [("int", v) for v in range(lo, min(lo + CH - 1, B) + 1)]


def validate_rows(cfg, rows):
    """compare every published cell with the mirror -> (number of cells, list of differences,
    {family/path: cells}, {family/path: hazard cells})"""
    P = Params(cfg["SHIFT"], cfg["LONG"], cfg["LLONG"], cfg["CBITS"], cfg["MANT"], cfg["EMAX"])
    diffs, ncells, paths, hazards = [], 0, {}, {}
    coll = {}
    fsites = {(r["op"], r["order"], r["c"]) for r in rows if r["ck"] == "float"}
    want = {(op, order, fmt_f(f)) for op, order, f in float_sites(P)}
    if fsites != want:
        diffs.append({"what": "float sites", "only_spec": sorted(fsites - want)[:10], "only_mirror": sorted(want - fsites)[:10]})
    for r in rows:
        cv = parse_const(r["c"])
        fam = select(P, r["op"], r["order"], r["ck"], cv[1], shift_max=P.LLONG - 1)
        site = {"op": r["op"], "order": r["order"], "ckind": r["ck"], "cv": cv, "family": fam}
        if fam != r["family"]:
            diffs.append({"what": "family", "row": {k: r[k] for k in ("op", "order", "ck", "c")}, "spec": r["family"], "mirror": fam})
            continue
        xs = xseq(cfg, r["chunk"])
        if len(xs) != len(r["ref"]):
            diffs.append({"what": "row length", "row": {k: r[k] for k in ("op", "order", "ck", "c", "chunk")}})
            continue
        nc = sum(1 for x in xs if round_collision(P, site, x))
        if nc != r["coll"]:
            diffs.append({"what": "collision cells", "row": {k: r[k] for k in ("op", "order", "ck", "c", "chunk")}, "spec": r["coll"], "mirror": nc})
        if nc:
            k = "%s/%s/%s" % (r["op"], r["order"], "neg" if cv[1][1] < 0 else "pos")
            coll[k] = coll.get(k, 0) + nc
        for x, sr, sf, sp in zip(xs, r["ref"], r["fast"], r["path"]):
            ncells += 1
            sf = sr if sf == "=" else sf
            mr = ref(P, site, x)
            mf, mp = fast(P, site, x)
            if mf.startswith("UB:"):
                mf, mp = "UB", mp + "!" + mf[3:]
            key = fam + "/" + sp
            paths[key] = paths.get(key, 0) + 1
            if sf not in ("g", sr):
                hazards[key] = hazards.get(key, 0) + 1
            if (mr, mf, mp) != (sr, sf, sp) and len(diffs) < 50:
                diffs.append({"what": "cell", "row": {k: r[k] for k in ("op", "order", "ck", "c")}, "x": x,
                              "spec": [sr, sf, sp], "mirror": [mr, mf, mp]})
    return ncells, diffs, paths, hazards, coll
