"""C16 helpers: from the cases published by spec/MemSlice.tla to Cython source, call tables and
expected observations.

A case is {"lens", "lays", "hist": [expr, ...], "exp": {...}}; an expr is a list of items
[k, a, b, c] with k in "i" (integer a), "s" (slice a:b:c, 99 = bound omitted), "n" (None), "e" (Ellipsis).
"""
import json

NONE = 99
TYPES = {1: "long[:]", 2: "long[:, :]", 3: "long[:, :, :]"}
CONTIG1 = "long[::1]"


# ---------------------------------------------------------------- skeletons (what is fixed at compile time)

def skel_item(it):
    if it[0] == "s":
        return "s%d%d%d" % (it[1] != NONE, it[2] != NONE, it[3] != NONE)
    return it[0]


def skel_expr(e):
    return tuple(skel_item(it) for it in e)


def skel_case(hist):
    return tuple(skel_expr(e) for e in hist)


def values(hist):
    """run-time arguments of the typed function, in order of appearance"""
    out = []
    for e in hist:
        for it in e:
            if it[0] == "i":
                out.append(it[1])
            elif it[0] == "s":
                out.extend(v for v in it[1:4] if v != NONE)
    return out


def ndim_after(nd, se):
    return nd - sum(1 for k in se if k == "i") + sum(1 for k in se if k == "n")


def typed_supported(nd, skel):
    """An index with an Ellipsis that leaves no dimension (a[i, ...] on a 1-D view) cannot be
    compiled (0-dim slices do not exist in Cython; the compiler crashes, see notes): object path only."""
    for se in skel:
        after = ndim_after(nd, se)
        if after == 0 and "e" in se:
            return False
        nd = after
    return True


def _item_src(k, names):
    if k == "i":
        return next(names)
    if k == "n":
        return "None"
    if k == "e":
        return "..."
    a = next(names) if k[1] == "1" else ""
    b = next(names) if k[2] == "1" else ""
    c = (":" + next(names)) if k[3] == "1" else ""
    return "%s:%s%s" % (a, b, c)


def typed_function(name, ctype, skel):
    nargs = sum(1 for se in skel for k in se if k == "i") + sum(int(ch) for se in skel for k in se if k[0] == "s" for ch in k[1:])
    args = ["v%d" % i for i in range(nargs)]
    names = iter(args)
    head = "def %s(%s a%s):" % (name, ctype, "".join(", Py_ssize_t %s" % a for a in args))
    body = []
    cur = "a"
    for lvl, se in enumerate(skel):
        ex = "%s[%s]" % (cur, ", ".join(_item_src(k, names) for k in se))
        if lvl == len(skel) - 1:
            body.append("    return info(%s)" % ex)
        else:
            cur = "b%d" % (lvl + 1)
            body.append("    %s = %s" % (cur, ex))
    return head + "\n" + "\n".join(body) + "\n"


def const_function(name, ctype, item):
    def lit(v):
        return "" if v == NONE else str(v)
    a, b, c = item[1:4]
    ex = "%s:%s%s" % (lit(a), lit(b), (":" + lit(c)) if c != NONE else "")
    return "def %s(%s a):\n    return info(a[%s])\n" % (name, ctype, ex)


MODULE_HEAD = r'''# cython: language_level=3
import numpy as np
import json

def info(x):
    """observation: what NumPy sees through the buffer protocol + the object's own shape/strides"""
    if isinstance(x, (int, np.integer)):
        return json.dumps([[], [], [int(x)], [], []])
    m = np.asarray(x)
    isz = m.itemsize
    return json.dumps([list(m.shape), [s // isz for s in m.strides], m.ravel().tolist(),
                       list(x.shape), [s // isz for s in x.strides]])

def ob1(long[:] a, tuple es):
    r = <object>a
    for e in es:
        r = r[e]
    return info(r)

def cob1(long[::1] a, tuple es):
    r = <object>a
    for e in es:
        r = r[e]
    return info(r)

def ob2(long[:, :] a, tuple es):
    r = <object>a
    for e in es:
        r = r[e]
    return info(r)

def ob3(long[:, :, :] a, tuple es):
    r = <object>a
    for e in es:
        r = r[e]
    return info(r)

'''

PRELUDE = r'''
import numpy as np
_bases = {}
def A(lens, lays):
    """the input buffer of the model: every axis of extent n lives in 2n+4 slots of a C-ordered base"""
    key = (lens, lays)
    if key not in _bases:
        spans = [2 * n + 4 for n in lens]
        base = np.arange(int(np.prod(spans)), dtype=np.int64).reshape(spans)
        sl = tuple(slice(2, 2 + n) if l == "c" else slice(2, 2 + 2 * n, 2) if l == "s2" else slice(n + 1, 1, -1)
                   for n, l in zip(lens, lays))
        _bases[key] = (base, base[sl])
    return _bases[key][1]

def in_ref(arr, lens, lays):
    base = _bases[(lens, lays)][0]
    off = (arr.__array_interface__["data"][0] - base.__array_interface__["data"][0]) // 8
    return json.dumps([off, list(arr.shape), [s // 8 for s in arr.strides], arr.ravel().tolist(), int(base.size)])

def np_ref(arr, es):
    r = arr
    for e in es:
        r = r[e]
    return info(r)

def mv_ref(arr, es):
    r = memoryview(arr)
    for e in es:
        r = r[e]
    return info(r)
'''


# ---------------------------------------------------------------- python-side rendering of a case

def item_py(it):
    def v(x):
        return "None" if x == NONE else str(x)
    if it[0] == "i":
        return str(it[1])
    if it[0] == "n":
        return "None"
    if it[0] == "e":
        return "Ellipsis"
    return "slice(%s,%s,%s)" % (v(it[1]), v(it[2]), v(it[3]))


def expr_py(e, force_tuple=False):
    if len(e) == 1 and not force_tuple:
        return item_py(e[0])
    return "(" + "".join(item_py(it) + "," for it in e) + ")"


def hist_py(hist, force_tuple=False):
    return {"py": "(" + "".join(expr_py(e, force_tuple) + "," for e in hist) + ")"}


def arr_py(lens, lays):
    return {"py": "A(%r,%r)" % (tuple(lens), tuple(lays))}


def expr_text(hist):
    """a[...] text for messages and witnesses"""
    def it_t(it):
        if it[0] == "s":
            def v(x):
                return "" if x == NONE else str(x)
            return "%s:%s%s" % (v(it[1]), v(it[2]), (":" + v(it[3])) if it[3] != NONE else "")
        return {"i": str(it[1]), "n": "None", "e": "..."}[it[0]]
    return "a" + "".join("[" + ", ".join(it_t(it) for it in e) + "]" for e in hist)


def obs_string(err, shape, strides, el):
    if err:
        return "E:" + err
    return json.dumps([list(shape), list(strides), list(el), list(shape), list(strides)])


def expected(exp):
    return obs_string(exp["err"], exp["shape"], exp["strides"], exp["el"])


def predicted(exp):
    return obs_string(exp["perr"], exp["pshape"], exp["pstrides"], exp["pel"])


def mv_applicable(nd, hist):
    """Python's own memoryview supports 1-D integer and slice indexing only"""
    return nd == 1 and all(len(e) == 1 and e[0][0] in ("i", "s") for e in hist) and \
        all(e[0][0] == "s" for e in hist[:-1])


def descriptor(part, path, case):
    exp = case["exp"]
    nb = "both" if exp["nbs"] and exp["nbe"] else "start" if exp["nbs"] else "stop" if exp["nbe"] else "none"
    return {"part": part, "path": path, "hz": exp["hz"], "nd": len(case["lens"]), "depth": len(case["hist"]),
            "neg_step_bound_below_minus_len": nb, "abs_step_ge_2": bool(exp["big"]),
            "expected": "exception" if exp["err"] else ("empty" if not exp["el"] else "elements")}


def classes(cases):
    """class counts over the published cases (vacuity guard on the model's output)"""
    k = {}

    def bump(name):
        k[name] = k.get(name, 0) + 1
    for c in cases:
        exp = c["exp"]
        bump("err:" + (exp["err"] or "none"))
        bump("hz:" + exp["hz"])
        if not exp["err"]:
            bump("empty" if not exp["el"] else "nonempty")
            bump("ndim_out:%d" % len(exp["shape"]))
        if not exp["safe"]:
            bump("unsafe")
        last = c["hist"][-1]
        for it in last:
            bump("item:" + it[0])
            if it[0] == "s":
                if it[3] != NONE and it[3] < 0:
                    bump("neg_step")
                if it[1] == NONE or it[2] == NONE or it[3] == NONE:
                    bump("omitted_bound")
        bump("depth:%d" % len(c["hist"]))
        bump("nd_in:%d" % len(c["lens"]))
        for l in c["lays"]:
            bump("lay:" + l)
    return k
