"""C16 helpers: from the cases published by spec/MemSlice.tla to Cython source, call tables and
expected observations.

A case is {"lens", "lays", "hist": [expr, ...], "exp": {...}}; an expr is a list of items
[k, a, b, c] with k in "i" (integer a), "s" (slice a:b:c, 99 = bound omitted), "n" (None), "e" (Ellipsis).
"""
import json

NONE = 99
TYPES = {1: "long[:]", 2: "long[:, :]", 3: "long[:, :, :]"}
CONTIG1 = "long[::1]"


# ---------------------------------------------------------------- skeletons (what is fixed at compile time)

def skel_item(it):
    if it[0] == "s":
        return "s%d%d%d" % (it[1] != NONE, it[2] != NONE, it[3] != NONE)
    return it[0]


def skel_expr(e):
    return tuple(skel_item(it) for it in e)


def skel_case(hist):
    return tuple(skel_expr(e) for e in hist)


def values(hist):
    """run-time arguments of the typed function, in order of appearance"""
    out = []
    for e in hist:
        for it in e:
            if it[0] == "i":
                out.append(it[1])
            elif it[0] == "s":
                out.extend(v for v in it[1:4] if v != NONE)
    return out


def ndim_after(nd, se):
    return nd - sum(1 for k in se if k == "i") + sum(1 for k in se if k == "n")


def typed_supported(nd, skel):
    """An index with an Ellipsis that leaves no dimension (a[i, ...] on a 1-D view) cannot be
    compiled (0-dim slices do not exist in Cython; the compiler crashes, see notes): object path only."""
    for se in skel:
        after = ndim_after(nd, se)
        if after == 0 and "e" in se:
            return False
        nd = after
    return True


def _item_src(k, names):
    if k == "i":
        return next(names)
    if k == "n":
        return "None"
    if k == "e":
        return "..."
    a = next(names) if k[1] == "1" else ""
    b = next(names) if k[2] == "1" else ""
    c = (":" + next(names)) if k[3] == "1" else ""
    return "%s:%s%s" % (a, b, c)


MAXARGS = 9


def nargs_of(skel):
    return sum(1 for se in skel for k in se if k == "i") + sum(int(ch) for se in skel for k in se if k[0] == "s" for ch in k[1:])


def typed_function(name, ctype, skel, nd):
    """cdef function (no argument parsing code: keeps the modules small); called through a dispatcher"""
    args = ["v%d" % i for i in range(nargs_of(skel))]
    assert len(args) <= MAXARGS
    names = iter(args)
    head = "cdef %s(%s a%s):" % (name, ctype, "".join(", Py_ssize_t %s" % a for a in args))
    decl, body = [], []
    cur = "a"
    for lvl, se in enumerate(skel):
        ex = "%s[%s]" % (cur, ", ".join(_item_src(k, names) for k in se))
        nd = ndim_after(nd, se)
        if lvl == len(skel) - 1:
            body.append("    return info(%s)" % ex)
        else:
            cur = "b%d" % (lvl + 1)
            # declared: the type inferred for `b = a[::k]` with a contiguous `a` is the (wrong) contiguous one
            decl.append("    cdef %s %s" % (TYPES[nd], cur))
            body.append("    %s = %s" % (cur, ex))
    return head + "\n" + "\n".join(decl + body) + "\n"


def const_function(name, ctype, item):
    def lit(v):
        return "" if v == NONE else str(v)
    a, b, c = item[1:4]
    ex = "%s:%s%s" % (lit(a), lit(b), (":" + lit(c)) if c != NONE else "")
    return "cdef %s(%s a):\n    return info(a[%s])\n" % (name, ctype, ex)


def dispatcher(name, ctype, entries):
    """entries: [(fid, function name, number of arguments)]"""
    src = ["def %s(int fid, %s a%s):" % (name, ctype, "".join(", Py_ssize_t v%d=0" % i for i in range(MAXARGS)))]
    for j, (fid, fn, n) in enumerate(entries):
        src.append("    %s fid == %d:\n        return %s(a%s)" % ("if" if j == 0 else "elif", fid, fn, "".join(", v%d" % i for i in range(n))))
    src.append("    raise LookupError(fid)\n")
    return "\n".join(src)


MODULE_HEAD = r'''# cython: language_level=3
import numpy as np
import json

cdef class Exporter:
    """a buffer with exactly the offset, shape and strides of the model's input view (NumPy's own buffer
    export normalises the strides of arrays it flags as contiguous, i.e. of empty arrays and extent-1 axes)"""
    cdef object base
    cdef size_t addr
    cdef Py_ssize_t shp[3]
    cdef Py_ssize_t strd[3]
    cdef int nd
    cdef Py_ssize_t nbytes

    def __init__(self, base, Py_ssize_t off, shape, strides):
        cdef Py_ssize_t n = 8
        cdef size_t start = base.__array_interface__["data"][0]
        self.base = base
        self.addr = start + <size_t>(off * 8)
        self.nd = len(shape)
        for i in range(self.nd):
            self.shp[i] = shape[i]
            self.strd[i] = strides[i] * 8
            n *= shape[i]
        self.nbytes = n

    def __getbuffer__(self, Py_buffer *buf, int flags):
        buf.buf = <void *>self.addr
        buf.obj = self
        buf.len = self.nbytes
        buf.itemsize = 8
        buf.readonly = 0
        buf.ndim = self.nd
        buf.format = b"l"
        buf.shape = self.shp
        buf.strides = self.strd
        buf.suboffsets = NULL
        buf.internal = NULL

    def __releasebuffer__(self, Py_buffer *buf):
        pass

def info(x):
    """observation: what NumPy sees through the buffer protocol + the object's own shape/strides
    (strides in elements; 0 for an axis of extent 0, whose stride is not demanded)"""
    if isinstance(x, (int, np.integer)):
        return json.dumps([[], [], [int(x)], [], []])
    m = np.asarray(x)
    isz = m.itemsize
    return json.dumps([list(m.shape), [s // isz if n else 0 for s, n in zip(m.strides, m.shape)], m.ravel().tolist(),
                       list(x.shape), [s // isz if n else 0 for s, n in zip(x.strides, x.shape)]])

def ob1(long[:] a, tuple es):
    r = <object>a
    for e in es:
        r = r[e]
    return info(r)

def cob1(long[::1] a, tuple es):
    r = <object>a
    for e in es:
        r = r[e]
    return info(r)

def ob2(long[:, :] a, tuple es):
    r = <object>a
    for e in es:
        r = r[e]
    return info(r)

def ob3(long[:, :, :] a, tuple es):
    r = <object>a
    for e in es:
        r = r[e]
    return info(r)

'''

PRELUDE = r'''
import numpy as np
INPUTS = __INPUTS__
_in = {}
def _mk(lens, lays):
    key = (lens, lays)
    if key not in _in:
        rec = INPUTS["%r|%r" % (list(lens), list(lays))]
        base = np.arange(rec["base"], dtype=np.int64)
        # exactly the model's view; NumPy validates that it lies inside `base`
        arr = np.ndarray(shape=tuple(rec["shape"]), dtype=np.int64, buffer=base, offset=rec["off"] * 8,
                         strides=tuple(s * 8 for s in rec["strides"]))
        _in[key] = (base, arr, Exporter(base, rec["off"], rec["shape"], rec["strides"]))
    return _in[key]

def A(lens, lays):
    return _mk(lens, lays)[1]

def X(lens, lays):
    return _mk(lens, lays)[2]

def in_ref(lens, lays):
    """the same buffer built by NumPy's own slicing of a C-ordered padded base (every axis of extent n in 2n+4 slots)"""
    base, arr, exporter = _mk(lens, lays)
    big = base.reshape([2 * n + 4 for n in lens])
    nat = big[tuple(slice(2, 2 + n) if l == "c" else slice(2, 2 + 2 * n, 2) if l == "s2" else slice(n + 1, 1, -1)
                    for n, l in zip(lens, lays))]
    off = (nat.__array_interface__["data"][0] - base.__array_interface__["data"][0]) // 8
    m = memoryview(exporter)
    same = (list(nat.shape) == list(arr.shape) and nat.tolist() == arr.tolist()
            and list(m.shape) == list(arr.shape) and list(m.strides) == list(arr.strides) and m.tolist() == arr.tolist()
            and (0 in lens or (off == (arr.__array_interface__["data"][0] - base.__array_interface__["data"][0]) // 8
                               and nat.strides == arr.strides)))
    return json.dumps([bool(same), list(arr.shape), [s // 8 for s in arr.strides], arr.ravel().tolist(), int(base.size)])

def np_ref(arr, es):
    r = arr
    for e in es:
        r = r[e]
    return info(r)

def mv_ref(exporter, es):
    r = memoryview(exporter)
    for e in es:
        r = r[e]
    return info(r)
'''


def prelude(inputs):
    table = {"%r|%r" % (list(k[0]), list(k[1])): {f: rec[f] for f in ("off", "shape", "strides", "base")} for k, rec in inputs.items()}
    return PRELUDE.replace("__INPUTS__", repr(table))


# ---------------------------------------------------------------- python-side rendering of a case

def item_py(it):
    def v(x):
        return "None" if x == NONE else str(x)
    if it[0] == "i":
        return str(it[1])
    if it[0] == "n":
        return "None"
    if it[0] == "e":
        return "Ellipsis"
    return "slice(%s,%s,%s)" % (v(it[1]), v(it[2]), v(it[3]))


def expr_py(e, force_tuple=False):
    if len(e) == 1 and not force_tuple:
        return item_py(e[0])
    return "(" + "".join(item_py(it) + "," for it in e) + ")"


def hist_py(hist, force_tuple=False):
    return {"py": "(" + "".join(expr_py(e, force_tuple) + "," for e in hist) + ")"}


def arr_py(lens, lays, exporter=False):
    return {"py": "%s(%r,%r)" % ("X" if exporter else "A", tuple(lens), tuple(lays))}


def expr_text(hist):
    """a[...] text for messages and witnesses"""
    def it_t(it):
        if it[0] == "s":
            def v(x):
                return "" if x == NONE else str(x)
            return "%s:%s%s" % (v(it[1]), v(it[2]), (":" + v(it[3])) if it[3] != NONE else "")
        return {"i": str(it[1]), "n": "None", "e": "..."}[it[0]]
    return "a" + "".join("[" + ", ".join(it_t(it) for it in e) + "]" for e in hist)


def obs_string(err, shape, strides, el):
    if err:
        return "E:" + err
    assert all(s == 0 for s, n in zip(strides, shape) if n == 0)
    return json.dumps([list(shape), list(strides), list(el), list(shape), list(strides)])


def expected(exp):
    return obs_string(exp["err"], exp["shape"], exp["strides"], exp["el"])


def former_cell(exp):
    """the two defects repaired by 20608b6d6 lived on these cells (marks published by the spec)"""
    k = []
    if exp["nbs"] or exp["nbe"]:
        k.append("neg-step-bound-below-minus-len")
    if exp["agd"]:
        k.append("bounds-against-step-by-less-than-a-step")
    return "+".join(k) or "none"


def mv_applicable(nd, hist):
    """Python's own memoryview supports 1-D integer and slice indexing only"""
    return nd == 1 and all(len(e) == 1 and e[0][0] in ("i", "s") for e in hist) and \
        all(e[0][0] == "s" for e in hist[:-1])


def descriptor(part, path, case):
    exp = case["exp"]
    nb = "both" if exp["nbs"] and exp["nbe"] else "start" if exp["nbs"] else "stop" if exp["nbe"] else "none"
    return {"part": part, "path": path, "nd": len(case["lens"]), "depth": len(case["hist"]),
            "neg_step_bound_below_minus_len": nb, "bounds_against_step_lt_step": bool(exp["agd"]),
            "expected": "exception" if exp["err"] else ("empty" if not exp["el"] else "elements")}


def classes(cases):
    """class counts over the published cases (vacuity guard on the model's output)"""
    k = {}

    def bump(name):
        k[name] = k.get(name, 0) + 1
    for c in cases:
        exp = c["exp"]
        bump("err:" + (exp["err"] or "none"))
        bump("former:" + former_cell(exp))
        if not exp["err"]:
            bump("empty" if not exp["el"] else "nonempty")
            bump("ndim_out:%d" % len(exp["shape"]))
        last = c["hist"][-1]
        for it in last:
            bump("item:" + it[0])
            if it[0] == "s":
                if it[3] != NONE and it[3] < 0:
                    bump("neg_step")
                if it[1] == NONE or it[2] == NONE or it[3] == NONE:
                    bump("omitted_bound")
        bump("depth:%d" % len(c["hist"]))
        bump("nd_in:%d" % len(c["lens"]))
        for l in c["lays"]:
            bump("lay:" + l)
    return k
