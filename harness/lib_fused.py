"""C34 helpers: type / argument tables shared with spec/Fused.tla, module generator,
the independent oracle P (dispatch rules of docs/src/userguide/fusedtypes.rst applied to
concrete Python objects), the fact exporter for _split_fused_types (B3)."""
import itertools
import json

# id -> (Cython spelling = __signatures__ key, cython.typeof() string)
TYPES = {
    "short": ("short", "short"), "int": ("int", "int"), "long": ("long", "long"), "llong": ("long long", "long long"),
    "uint": ("unsigned int", "unsigned int"), "ulong": ("unsigned long", "unsigned long"), "bint": ("bint", "bint"),
    "float": ("float", "float"), "double": ("double", "double"),
    "fc": ("float complex", "float complex"), "dc": ("double complex", "double complex"),
    "object": ("object", "Python object"), "list": ("list", "list object"),
    "mvi": ("int[:]", "int[:]"), "mvl": ("long[:]", "long[:]"), "mvf": ("float[:]", "float[:]"),
    "mvd": ("double[:]", "double[:]"), "mvd2": ("double[:, :]", "double[:, :]"),
    "char": ("char", "char"),       # never a member: a key that must raise KeyError
}
BUFS = {"mvi": ("i", 4, 1), "mvl": ("i", 8, 1), "mvf": ("f", 4, 1), "mvd": ("f", 8, 1), "mvd2": ("f", 8, 2)}
UALL = ["short", "int", "long", "llong", "uint", "ulong", "bint", "float", "double", "fc", "dc", "object", "list",
        "mvi", "mvl", "mvf", "mvd", "mvd2"]
UNUM = ["short", "int", "long", "llong", "uint", "ulong", "bint", "float", "double", "fc", "dc", "object"]
UNUMQ = [t for t in UNUM if t != "uint"]
UTHOR3 = UNUM + ["list", "mvd", "mvi"]

# argument kind -> Python expression evaluated in the driver (np, array, MyInt, MyFloat, mkcymv)
ARGS = {
    "i3": "3", "im1": "-1", "i40": "2**40", "i63": "2**63", "true": "True", "isub": "MyInt(5)",
    "f15": "1.5", "fsub": "MyFloat(2.5)", "c12": "(1+2j)", "str": "'s'", "list": "[1, 2]", "none": "None",
    "ndi4": "np.array([1, 2, 3], dtype=np.int32)", "ndi8": "np.array([1, 2, 3], dtype=np.int64)",
    "ndu4": "np.array([1, 2, 3], dtype=np.uint32)", "ndf4": "np.array([1.5, 2.5], dtype=np.float32)",
    "ndf8": "np.array([1.5, 2.5])", "ndf82": "np.array([[1.5, 2.5], [3.5, 4.5]])",
    "ndf83": "np.arange(8, dtype=np.float64).reshape(2, 2, 2)", "ndi42": "np.array([[1, 2], [3, 4]], dtype=np.int32)",
    "arri": "array.array('i', [1, 2])", "arrl": "array.array('l', [1, 2])", "arrf": "array.array('f', [1.5, 2.5])",
    "arrd": "array.array('d', [1.5, 2.5])", "mvd": "memoryview(array.array('d', [1.5, 2.5]))",
    "cymv": "mkcymv(np.array([1.5, 2.5]))", "bytes": "b'ab'",
}
PRELUDE_HEAD = r'''
import array
try:
    import numpy as np
except ImportError:
    np = None
class MyInt(int): pass
class MyFloat(float): pass
def _val(o):
    try:
        m = memoryview(o)
    except TypeError:
        try:
            return o + o
        except Exception as e:
            return ("E", type(e).__name__)
    return (m.format, m.ndim, m.tolist())
def KW(fname, names, *a):
    return globals()[fname](**dict(zip(names, a)))
def IDX(fname, key, *a):
    return globals()[fname][key](*a)
def IDXT(fname, key, *a):          # key given as a list of strings -> tuple
    return globals()[fname][tuple(key)](*a)
_PYT = {"int": int, "float": float, "list": list, "object": object, "complex": complex}
def IDXP(fname, key, *a):          # key given as names of Python types
    k = tuple(_PYT[n] for n in key)
    return globals()[fname][k[0] if len(k) == 1 else k](*a)
def SIGS(fname):
    return sorted(globals()[fname].__signatures__)
'''


def is_buf(t):
    return t in BUFS


def decl_has_buf(d):
    return any(is_buf(t) for t in d["f1"]) or any(is_buf(t) for t in d["f2"])


def params(d):
    return {"one": [1], "two": [1, 2], "same": [1, 1]}[d["mode"]]


def fused_lists(d):
    return [d["f1"], d["f2"]] if d["mode"] == "two" else [d["f1"]]


def sigs(d):
    return [list(s) for s in itertools.product(*fused_lists(d))]


def sig_key(names):
    return "|".join(TYPES[n][0] for n in names)


def gen_module(decls, with_buf):
    """decls: list of (index, decl). Returns (pyx source, prelude with the generic twins)."""
    pyx = ["# cython: language_level=3", "cimport cython", ""]
    pre = [PRELUDE_HEAD]
    if with_buf:
        pyx += ["def mkcymv(double[:] a):", "    return a", ""]
    pyx += ["def _val(o):",
            "    try:", "        m = memoryview(o)",
            "    except TypeError:",
            "        try:", "            return o + o",
            "        except Exception as e:", "            return ('E', type(e).__name__)",
            "    return (m.format, m.ndim, m.tolist())", ""]
    for i, d in decls:
        fl = fused_lists(d)
        for j, f in enumerate(fl):
            pyx.append("ctypedef fused F%d%s:" % (i, "ab"[j]))
            pyx += ["    " + TYPES[t][0] for t in f]
        par = params(d)
        names = ["x", "y"][:len(par)]
        sig = ", ".join("F%d%s %s" % (i, "ab"[p - 1], n) for p, n in zip(par, names))
        body = []
        for p, n in zip(par, names):
            if any(is_buf(t) for t in fl[p - 1]):
                body.append("    v%s = _val(%s)" % (n, n))
            else:
                body += ["    try:", "        v%s = %s + %s" % (n, n, n),
                         "    except Exception as e:", "        v%s = ('E', type(e).__name__)" % n]
        ret = "    return (%s, %s)" % (", ".join("cython.typeof(%s)" % n for n in names), ", ".join("v" + n for n in names))
        kinds = ["def"] + (["cpdef"] if d.get("cpdef") else [])
        for kind in kinds:
            fname = ("f%d" if kind == "def" else "g%d") % i
            pyx.append("%s %s(%s):" % (kind, fname, sig))
            pyx += body
            pyx.append(ret)
            pyx.append("")
        # the generic source (what CPython does with the same body)
        pre.append("def P%d(%s):" % (i, ", ".join(names)))
        for p, n in zip(par, names):
            if any(is_buf(t) for t in fl[p - 1]):
                pre.append("    v%s = _val(%s)" % (n, n))
            else:
                pre += ["    try:", "        v%s = %s + %s" % (n, n, n),
                        "    except Exception as e:", "        v%s = ('E', type(e).__name__)" % n]
        pre.append("    return (%s,)" % ", ".join("v" + n for n in names))
        pre.append("")
    return "\n".join(pyx) + "\n", "\n".join(pre) + "\n"


# --------------------------------------------------------------------------
# P: the documented rules applied to concrete objects (independent of the TLA+ tables)

INT_RANGE = {"short": (-2**15, 2**15 - 1), "int": (-2**31, 2**31 - 1), "long": (-2**63, 2**63 - 1),
             "llong": (-2**63, 2**63 - 1), "uint": (0, 2**32 - 1), "ulong": (0, 2**64 - 1)}
SIZE_ORDER = {"short": 1, "int": 2, "uint": 2, "long": 3, "ulong": 3, "llong": 4,
              "float": 1, "double": 2, "fc": 1, "dc": 2}
FLOATS, COMPLEXES = ("float", "double"), ("fc", "dc")
_FMT = {"i": ("i", 4), "l": ("i", 8), "q": ("i", 8), "I": ("u", 4), "L": ("u", 8), "f": ("f", 4), "d": ("f", 8),
        "B": ("u", 1), "b": ("i", 1)}


def make_values():
    """the concrete objects behind the argument kinds (numpy / array needed only for buffer kinds)"""
    import array
    import numpy as np

    class MyInt(int):
        pass

    class MyFloat(float):
        pass
    env = {"np": np, "array": array, "MyInt": MyInt, "MyFloat": MyFloat,
           "mkcymv": lambda a: memoryview(a)}   # for P a Cython memoryview is just another exporter of the same buffer
    return {k: eval(v, env) for k, v in ARGS.items()}


def _bufinfo(v):
    try:
        m = memoryview(v)
    except TypeError:
        return None
    k = _FMT.get(m.format.lstrip("@=<>"))
    return (k, m.ndim, m.readonly)


def p_select(members, v):
    """set of members the documented rules select; None = the documentation is silent"""
    S = list(members)
    if v is None and any(is_buf(m) for m in S):
        return None
    bi = _bufinfo(v)
    exact = []
    for m in S:
        if m == "bint" and type(v) is bool:
            exact.append(m)
        elif m == "list" and type(v) is list:
            exact.append(m)
        elif is_buf(m) and bi is not None and bi[0] == BUFS[m][:2] and bi[1] == BUFS[m][2]:
            exact.append(m)
    if exact:
        return set(exact)
    if isinstance(v, int):
        corr = [m for m in S if m in INT_RANGE]
    elif isinstance(v, float):
        corr = [m for m in S if m in FLOATS]
    elif isinstance(v, complex):
        corr = [m for m in S if m in COMPLEXES]
    else:
        corr = []
    if corr:
        top = max(SIZE_ORDER[m] for m in corr)
        return {m for m in corr if SIZE_ORDER[m] == top}
    return {"object"} if "object" in S else set()


def p_conv(m, v):
    bi = _bufinfo(v)
    if m in INT_RANGE:
        if isinstance(v, int):
            lo, hi = INT_RANGE[m]
            if not lo <= v <= hi:
                return "OverflowError"
            return "ok" if lo <= v + v <= hi else "tyonly"
        if isinstance(v, float) or bi is not None:
            return "nodemand"
        return "TypeError"
    if m == "bint":
        return "ok" if type(v) is bool else ("nodemand" if bi is not None else "tyonly")
    if m in FLOATS:
        if isinstance(v, (int, float)):
            return "ok"
        return "nodemand" if bi is not None else "TypeError"
    if m in COMPLEXES:
        if isinstance(v, (int, float, complex)):
            return "ok"
        return "nodemand" if bi is not None else "TypeError"
    if m == "object":
        return "ok"
    if m == "list":
        return "ok" if type(v) is list else ("nodemand" if v is None else "TypeError")
    if is_buf(m):
        if bi is not None:
            if bi[2] and isinstance(v, bytes):
                return "nodemand"
            return "ok" if (bi[0] == BUFS[m][:2] and bi[1] == BUFS[m][2]) else "ValueError"
        return "nodemand" if v is None else "TypeError"
    raise ValueError(m)


def _ret(ty, val):
    return {"k": "ret", "ty": list(ty), "val": list(val), "e": ""}


def _exc(e):
    return {"k": "exc", "ty": [], "val": [], "e": e}


ANY = {"k": "any", "ty": [], "val": [], "e": ""}


def p_convout(sig, par, vals):
    """all conversions fine -> return; a conversion without demand, or two different failures (C conversions run
    before the type tests of object-typed parameters) -> no demand; else the agreed exception"""
    cs = [p_conv(sig[p - 1], v) for p, v in zip(par, vals)]
    bad = {c for c in cs if c not in ("ok", "tyonly")}
    if not bad:
        return _ret([sig[p - 1] for p in par], [c == "ok" for c in cs])
    if "nodemand" in bad or len(bad) > 1:
        return ANY
    return _exc(bad.pop())


def p_want(d, op, key, vals):
    par = params(d)
    fl = fused_lists(d)
    if op == "index":
        if list(key) in sigs(d):
            return [p_convout(list(key), par, vals)]
        return [_exc("KeyError")]
    deciding = [vals[i] if d["mode"] == "two" else vals[0] for i in range(len(fl))]
    sels = [p_select(f, v) for f, v in zip(fl, deciding)]
    if any(s is None for s in sels):
        return [ANY]
    if any(not s for s in sels):
        return [_exc("TypeError")]
    out = []
    for sig in itertools.product(*[sorted(s) for s in sels]):
        o = p_convout(list(sig), par, vals)
        if o not in out:
            out.append(o)
    return out


def canon(outcomes):
    return sorted(json.dumps(o, sort_keys=True) for o in outcomes)


# --------------------------------------------------------------------------
# B3: the real _split_fused_types on real type objects

SPLIT_CHILD = r'''
import json, sys
import Cython
from Cython.Compiler import Options, Errors
from Cython.Compiler.Main import compile as cy_compile, CompilationOptions
from Cython.Compiler import PyrexTypes as P, Builtin, FusedNode
assert P.__file__.endswith(".py") and FusedNode.__file__.endswith(".py"), (P.__file__, FusedNode.__file__)
def mv(dt, nd):
    return P.MemoryViewSliceType(dt, [('direct', 'strided')] * nd)
TY = {"short": P.c_short_type, "int": P.c_int_type, "long": P.c_long_type, "llong": P.c_longlong_type,
      "uint": P.c_uint_type, "ulong": P.c_ulong_type, "bint": P.c_bint_type, "float": P.c_float_type,
      "double": P.c_double_type, "fc": P.c_float_complex_type, "dc": P.c_double_complex_type,
      "object": P.py_object_type, "list": Builtin.list_type,
      "mvi": mv(P.c_int_type, 1), "mvl": mv(P.c_long_type, 1), "mvf": mv(P.c_float_type, 1),
      "mvd": mv(P.c_double_type, 1), "mvd2": mv(P.c_double_type, 2)}
NAME = {id(v): k for k, v in TY.items()}
M = id(P.MemoryViewSliceType)
flags = {"int": M < id(type(TY["int"])), "bool": M < id(type(TY["bint"])), "float": M < id(type(TY["double"])),
         "complex": M < id(type(TY["dc"])), "obj": M < id(type(TY["object"])), "builtin": M < id(type(TY["list"]))}
class Arg(object):
    accept_none = True
decls = json.load(open(sys.argv[1]))
out = []
for f in decls:
    a = Arg()
    a.type = P.FusedType([TY[n] for n in f], name="T")
    normal, bufs, pyth, obj = FusedNode.FusedCFuncDefNode._split_fused_types(None, a)
    out.append({"f": f, "normal": [NAME[id(t)] for t in normal], "bufs": [NAME[id(t)] for t in bufs], "obj": bool(obj),
                "spec": [t.specialization_string for t in normal + bufs],
                "py": [t.py_type_name() for t in normal]})
json.dump({"flags": flags, "facts": out}, open(sys.argv[2], "w"))
print("@@" + json.dumps({"n": len(out), "flags": flags}))
'''


def seqs(universe, n):
    out = []
    for k in range(1, n + 1):
        out += [list(p) for p in itertools.permutations(universe, k)]
    return out
