"""Helpers for C12 (string-table compression): input families, an independent
Python decoder of the LZSS format (oracle P), the child that runs the real
compressor from the snapshot, and the ASan/UBSan harness around the real C
decoder extracted from Cython/Utility/StringTools.c."""
import itertools
import json
import os
import re
import subprocess
import sys

import core

WINDOW = (1 << 14) + 128

# --------------------------------------------------------------------------
# oracle P: the format, written independently of spec/LZSS.tla


def py_decode(src, n, want=None):
    """Decode `src` into exactly `n` bytes.  Returns (status, pos, out) with the
    same status classes as the TLA+ reference decoder."""
    L = len(src)
    pos = 0
    out = bytearray()
    status = None
    if n > 0:
        while status is None:
            if pos >= L:
                status = "oob-read"
                break
            flags = src[pos]
            pos += 1
            for j in range(8):
                if (flags >> j) & 1:
                    if pos >= L:
                        status = "oob-read"
                        break
                    if len(out) + 1 > n:
                        status = "oob-write"
                        break
                    out.append(src[pos])
                    pos += 1
                else:
                    if pos + 2 > L:
                        status = "oob-read"
                        break
                    lo, hi = src[pos], src[pos + 1]
                    if not lo & 0x80:
                        off, ln, adv = lo, hi + 3, 2
                    elif not hi & 0x80:
                        off, ln, adv = 0x80 + (((hi << 2) & 0x180) | (lo & 0x7F)), (hi & 0x1F) + 3, 2
                    else:
                        if pos + 3 > L:
                            status = "oob-read"
                            break
                        off, ln, adv = 0x80 + (((hi & 0x7F) << 7) | (lo & 0x7F)), src[pos + 2] + 3, 3
                    ref = len(out) - off - ln
                    if ref < 0:
                        status = "bad-ref"
                        break
                    if len(out) + ln > n:
                        status = "oob-write"
                        break
                    out += out[ref:ref + ln]
                    pos += adv
                if len(out) >= n:
                    status = "done"
                    break
    else:
        status = "done"
    if status == "done":
        if pos != L:
            status = "length"
        elif want is not None and bytes(out) != bytes(want):
            status = "mismatch"
        else:
            status = "ok"
    return status, pos, bytes(out)


# --------------------------------------------------------------------------
# inputs for the real compressor


def _rb(rng, n, alphabet=None):
    if alphabet is None:
        return bytes(rng.getrandbits(8) for _ in range(n))
    return bytes(rng.choice(alphabet) for _ in range(n))


def planted(rng, gap, length, tail, periodic=False):
    """X + gap bytes + X + tail: the second X can be coded as a back reference with end offset
    `gap` and length `length`.  The gap is fresh random data (all literals) or, with `periodic`,
    a random 300-byte block repeated (a few maximal-length references, cheap for TLC)."""
    x = _rb(rng, length)
    if periodic and gap > 600:
        block = _rb(rng, 300)
        filler = (block * (gap // 300 + 1))[:gap]
    else:
        filler = _rb(rng, gap)
    return x + filler + x + _rb(rng, tail)


def words_text(rng, vocab_size, total):
    letters = b"abcdefghijklmnopqrstuvwxyz_ABCDEFXYZ0123456789"
    vocab = [_rb(rng, rng.randint(2, 12), letters) for _ in range(vocab_size)]
    out = bytearray()
    while len(out) < total:
        out += rng.choice(vocab)
        if rng.random() < 0.3:
            out += rng.choice([b"_", b".", b"__", b" "])
    return bytes(out[:total])


def source_slices(rng, count, size):
    src_dir = os.path.join(core.snapshot(), "Cython", "Compiler")
    files = sorted(f for f in os.listdir(src_dir) if f.endswith(".py"))
    out = []
    for _ in range(count):
        for _try in range(20):
            fn = rng.choice(files)
            with open(os.path.join(src_dir, fn), "rb") as f:
                data = f.read()
            if len(data) >= size:
                start = rng.randrange(0, len(data) - size + 1)
                out.append(data[start:start + size])
                break
    return out


NEAR_GAPS = [0, 1, 2, 63, 126, 127, 128, 129, 255, 256, 383, 384, 511, 512, 638, 639, 640, 641]
FAR_GAPS = [8319, 8320, WINDOW - 129, WINDOW - 2, WINDOW - 1, WINDOW, WINDOW + 1, WINDOW + 257, WINDOW + 258, WINDOW + 300]


def gen_inputs(tier, rng):
    """-> list of (kind, bytes).  `kind` names the family (used in descriptors)."""
    thorough = tier == "thorough"
    cases = []

    def add(kind, data):
        cases.append((kind, bytes(data)))

    # exhaustive small strings
    for n in range(0, 5):
        for t in itertools.product(b"abc", repeat=n):
            add("exh3", bytes(t))
    for n in range(1, (12 if thorough else 10) + 1):
        for t in itertools.product(b"ab", repeat=n):
            add("exh2", bytes(t))
    if thorough:
        for n in range(5, 8):
            for t in itertools.product(b"abc", repeat=n):
                add("exh3", bytes(t))
    # runs and periodic strings (match length is bounded by the distance)
    run_lengths = list(range(1, 20)) + [257, 258, 259, 260, 261, 262, 515, 516, 517, 518, 519, 520, 1000, 3000]
    if thorough:
        run_lengths += [20000, 102400]
    for n in run_lengths:
        add("run", b"a" * n)
    for p in [2, 3, 4, 5, 7, 64, 127, 128, 129, 130, 131, 257, 258, 259, 260, 300, 515]:
        block = _rb(rng, p)
        for total in (2 * p + 2, 3 * p + 5, 4 * p + 300):
            add("periodic", (block * (total // p + 1))[:total])
    if thorough:
        for p in (3, 130, 700, 20000):
            block = _rb(rng, p)
            add("periodic", (block * (102400 // p + 1))[:102400])
    # planted repeats at the edges of every back-reference encoding
    lens_short = [3, 4, 5, 34, 35, 36]
    lens_long = [257, 258, 259, 300, 520]
    for gap in NEAR_GAPS:
        for ln in lens_short:
            for tail in ((0, 1, 2, 5) if thorough else (0, 2)):
                add("planted-near", planted(rng, gap, ln, tail))
    for gap in [0, 1, 127, 128, 511, 512, 639, 640]:
        for ln in lens_long:
            for tail in ((0, 3) if thorough else (0,)):
                add("planted-near", planted(rng, gap, ln, tail))
    if thorough:
        far = [(g, ln, t) for g in FAR_GAPS for ln in (3, 4, 5, 35, 257, 258, 259, 520) for t in (0, 1, 300)]
    else:
        far = [(WINDOW - 1, 258, 0), (WINDOW - 1, 4, 2), (WINDOW - 2, 35, 0), (WINDOW, 258, 0), (WINDOW, 4, 300),
               (WINDOW + 1, 36, 1), (WINDOW + 257, 258, 0), (WINDOW + 258, 259, 5), (8319, 4, 0), (8320, 300, 1),
               (WINDOW - 129, 3, 0), (WINDOW - 1, 3, 0)]
    for k, (gap, ln, tail) in enumerate(far):
        add("planted-far", planted(rng, gap, ln, tail, periodic=(k % 6 != 0)))
    # random strings over small alphabets: many overlapping candidates, lazy matching
    for k in range(60 if thorough else 24):
        alpha = [b"ab", b"abc", b"abcd", b"0123456789abcdef"][k % 4]
        n = rng.choice([20, 50, 100, 300, 700, 1500, 3000] if not thorough else [50, 300, 1500, 5000, 20000])
        add("rand-small-alphabet", _rb(rng, n, alpha))
    # identifier-like text
    for k in range(40 if thorough else 12):
        vs = [20, 200, 2000][k % 3]
        n = rng.choice([1000, 2500, 4000] if not thorough else [2000, 8000, 30000])
        add("words", words_text(rng, vs, n))
    # real source text (what string tables mostly contain)
    for s in source_slices(rng, 24 if thorough else 6, 3000):
        add("source", s)
    add("source", source_slices(rng, 1, 40000 if thorough else 20000)[0])
    # incompressible data
    for n in ([10, 100, 1000, 2500] if not thorough else [10, 100, 1000, 5000, 20000, 40000]):
        add("rand256", _rb(rng, n))
    if thorough:
        add("words", words_text(rng, 300, 102400))
        add("words", words_text(rng, 5000, 102400))
        add("rand-small-alphabet", _rb(rng, 102400, b"ab"))
        add("rand-small-alphabet", _rb(rng, 102400, b"abcdefgh"))
        add("rand256", _rb(rng, 102400))
        for s in source_slices(rng, 2, 102400):
            add("source", s)
    seen = set()
    out = []
    for kind, data in cases:
        if data in seen:
            continue
        seen.add(data)
        out.append({"id": len(out), "kind": kind, "data": data})
    return out


# --------------------------------------------------------------------------
# the real compressor (child process, pure Python from the snapshot)

_COMPRESS_CHILD = r'''
import json, sys
from Cython import LZSS
assert LZSS.__file__.endswith(".py"), LZSS.__file__
from Cython.Compiler import Code
assert Code.__file__.endswith(".py"), Code.__file__
algos = {name: (num, fn) for num, name, fn in Code.compression_algorithms}
assert "lzss" in algos, algos
compress = algos["lzss"][1]
assert compress is LZSS.lzss_compress, "Code.compression_algorithms does not use LZSS.lzss_compress"
out = open(sys.argv[2], "w")
with open(sys.argv[1]) as f:
    for line in f:
        rec = json.loads(line)
        data = bytes.fromhex(rec["data"])
        try:
            c = compress(data)
            if not isinstance(c, (bytes, bytearray)):
                raise TypeError("compressor returned %s" % type(c).__name__)
            r = {"id": rec["id"], "comp": bytes(c).hex()}
        except BaseException as e:
            r = {"id": rec["id"], "error": type(e).__name__ + ": " + str(e)[:200]}
        out.write(json.dumps(r) + "\n")
out.close()
print("@@" + json.dumps({"algo_number": algos["lzss"][0]}))
'''


def run_compressor(inputs, workdir, timeout=3000):
    """inputs: list of {'id','data': bytes,...} -> (dict id -> bytes | ('error', text), child result)"""
    inf = os.path.join(workdir, "inputs.ndjson")
    outf = os.path.join(workdir, "compressed.ndjson")
    with open(inf, "w") as f:
        for r in inputs:
            f.write(json.dumps({"id": r["id"], "data": r["data"].hex()}) + "\n")
    ch = core.run_child(_COMPRESS_CHILD, [inf, outf], with_snapshot=True, timeout=timeout, mem_mb=8192)
    res = {}
    if os.path.exists(outf):
        for r in core.read_ndjson(outf):
            res[r["id"]] = ("error", r["error"]) if "error" in r else bytes.fromhex(r["comp"])
    return res, ch


# --------------------------------------------------------------------------
# the real C decoder under ASan/UBSan

_EXTRACT_CHILD = r'''
import json, sys
from Cython.Compiler import Code
assert Code.__file__.endswith(".py"), Code.__file__
u = Code.UtilityCode.load("DecompressString_LZSS", "StringTools.c")
print("@@" + json.dumps({"impl": u.impl, "proto": u.proto}))
'''

_C_MAIN = r'''
#include <stdint.h>
#include <stddef.h>
#include <stdio.h>
#include <stdlib.h>
#include <string.h>
#define CYTHON_SMALL_CODE
#define CYTHON_UNUSED
#define CYTHON_INLINE inline
#define likely(x) (x)
#define unlikely(x) (x)

%(decoder)s

static uint32_t rd32(FILE *f) { uint32_t v; if (fread(&v, 4, 1, f) != 1) { exit(3); } return v; }

int main(int argc, char **argv) {
    FILE *in = fopen(argv[1], "rb");
    FILE *out = fopen(argv[2], "ab");
    long skip = atol(argv[3]);
    if (!in || !out) return 3;
    uint32_t ncases = rd32(in);
    for (uint32_t k = 0; k < ncases; k++) {
        uint32_t srclen = rd32(in), dstlen = rd32(in);
        /* exact-size heap buffers: any access outside [0, srclen) / [0, dstlen) hits a redzone */
        if ((long) k < skip) { if (fseek(in, (long) srclen, SEEK_CUR)) return 3; continue; }
        uint8_t *exact_src = (uint8_t*) malloc(srclen);
        if (srclen && fread(exact_src, 1, srclen, in) != srclen) return 3;
        uint8_t *dst = (uint8_t*) malloc(dstlen);
        memset(dst, 0xEE, dstlen);
        fprintf(stderr, "CASE %%u\n", k); fflush(stderr);
        size_t ret = __pyx_lzss_decompress(exact_src, dst, dstlen);
        uint64_t r64 = ret;
        fwrite(&r64, 8, 1, out);
        fwrite(dst, 1, dstlen, out);
        fflush(out);
        free(dst); free(exact_src);
    }
    fclose(out);
    return 0;
}
'''

_RE_DECODER = re.compile(
    r"static\s+(?:CYTHON_\w+\s+)*size_t\s+__pyx_lzss_decompress\s*\(.*?\n\}\n", re.S)


def extract_decoder():
    """The text of __pyx_lzss_decompress as the utility-code loader of the snapshot delivers it."""
    ch = core.run_child(_EXTRACT_CHILD, with_snapshot=True, timeout=300)
    recs = ch.json_lines()
    if ch.rc != 0 or not recs:
        return None, "utility code DecompressString_LZSS could not be loaded: " + ch.err[-1500:]
    impl = recs[-1]["impl"]
    m = _RE_DECODER.search(impl)
    if not m:
        return None, "function __pyx_lzss_decompress not found in utility code DecompressString_LZSS"
    return m.group(0), impl


def build_c_harness(decoder_src, workdir):
    cfile = os.path.join(workdir, "lzss_harness.c")
    exe = os.path.join(workdir, "lzss_harness")
    with open(cfile, "w") as f:
        f.write(_C_MAIN % {"decoder": decoder_src})
    cmd = ["clang", "-g", "-O1", "-fno-omit-frame-pointer", "-fsanitize=address,undefined",
           "-fno-sanitize-recover=all", "-o", exe, cfile]
    p = subprocess.run(cmd, capture_output=True, text=True, timeout=300)
    if p.returncode != 0:
        return None, p.stdout + p.stderr
    return exe, ""


def run_c_decoder(exe, cases, workdir, tag, timeout=1200, max_crashes=40):
    """cases: list of (src bytes, dstlen).  Returns a list of observations, one per case:
    {'ret': int, 'out': bytes} or {'crash': summary text}."""
    inf = os.path.join(workdir, tag + ".in")
    outf = os.path.join(workdir, tag + ".out")
    with open(inf, "wb") as f:
        f.write(len(cases).to_bytes(4, "little"))
        for src, n in cases:
            f.write(len(src).to_bytes(4, "little"))
            f.write(n.to_bytes(4, "little"))
            f.write(src)
    obs = []
    env = dict(os.environ)
    env["ASAN_OPTIONS"] = "detect_leaks=0:exitcode=77"
    env["UBSAN_OPTIONS"] = "print_stacktrace=1:exitcode=78"
    crashes = 0
    while len(obs) < len(cases):
        if os.path.exists(outf):
            os.remove(outf)
        start = len(obs)
        try:
            p = subprocess.run([exe, inf, outf, str(start)], capture_output=True, timeout=timeout, env=env)
            rc, err = p.returncode, p.stderr.decode("utf8", "replace")
        except subprocess.TimeoutExpired as ex:
            rc, err = -999, (ex.stderr or b"").decode("utf8", "replace") + "\nTIMEOUT"
        blob = open(outf, "rb").read() if os.path.exists(outf) else b""
        off = 0
        k = start
        while k < len(cases) and off + 8 + cases[k][1] <= len(blob):
            n = cases[k][1]
            obs.append({"ret": int.from_bytes(blob[off:off + 8], "little"), "out": blob[off + 8:off + 8 + n]})
            off += 8 + n
            k += 1
        if k < len(cases):
            # the process died while decoding case k
            lines = [l for l in err.splitlines() if not l.startswith("CASE ")]
            summary = [l for l in lines if "ERROR" in l or "SUMMARY" in l or "runtime error" in l or "TIMEOUT" in l]
            obs.append({"crash": "rc=%s %s" % (rc, " | ".join(summary)[:600] or " | ".join(lines[-5:])[:600])})
            crashes += 1
            if crashes >= max_crashes:
                while len(obs) < len(cases):
                    obs.append({"crash": "not run: more than %d crashes before this case" % max_crashes})
        elif rc != 0:
            return None, "C harness failed rc=%s: %s" % (rc, err[-1500:])
    return obs, ""
