"""Helpers of the C11 check (C string literals denote the original bytes):
input domain, the child that calls the real escaping/splitting/emitting code of
the snapshot, and the independent oracle (gcc -std=c11 -trigraphs reading the
very same literal texts)."""
import concurrent.futures
import itertools
import json
import os
import re
import subprocess

import core

# ---------------------------------------------------------------------------
# domain

# representatives of the case split of escape_byte_string / _to_escape_sequence /
# escape_char / split_string_literal and of the C reading rules
ALPHABET = bytes([
    0x5C, 0x22, 0x27, 0x3F,                                     # \ " ' ?
    0x00, 0x01, 0x07, 0x08, 0x09, 0x0A, 0x0B, 0x0C, 0x0D, 0x1B, 0x1F,   # control classes
    0x20,                                                       # space
    0x30, 0x37, 0x38, 0x39,                                     # 0 7 8 9
    0x61, 0x66, 0x41, 0x46,                                     # a f A F
    0x78, 0x6E, 0x75,                                           # x n u
    0x3D, 0x28, 0x2F, 0x29, 0x3C, 0x21, 0x3E, 0x2D,             # = ( / ) < ! > -  (' is above)
    0x7E, 0x7F, 0x80, 0xFF,                                     # ~ DEL, high bytes
    0x7A,                                                       # z
])
assert len(set(ALPHABET)) == 40

SMALL_LIMITS_SHORT = (6, 7, 8, 9, 10, 11, 12)      # escaped length of a 3-byte string is <= 12
SMALL_LIMITS_ADV = tuple(range(8, 17))

TRI3 = b"=(/)'<!>-"


def adversarial_cores():
    """Byte strings whose escaped form is delicate at a chunk end."""
    cores = []
    for n in range(1, 10):
        cores.append(b"\\" * n)                      # runs of backslashes, every length mod 4
        cores.append(b"\\" * n + b'"')
        cores.append(b"\\" * n + b"n")
        cores.append(b"\\" * n + b"0")
    for c in TRI3:
        cores.append(b"??" + bytes([c]))             # trigraph look-alikes
        cores.append(b"?" * 3 + bytes([c]))
    cores += [b"??", b"???", b"????", b"?????", b"?\\?", b"??\\/", b"?\n?=", b'?"?=', b"?'?("]
    for esc, tail in itertools.product((b"\x00", b"\x01", b"\x07", b"\x1f", b"\x7f", b"\xff", b"\n", b"'"),
                                       (b"0", b"7", b"8", b"12", b"777", b"a", b"F", b"x41")):
        cores.append(esc + tail)                     # digits / hex letters right after an escape
    cores += [b"\\x41", b"\\x411", b"\\101", b"\\u0041", b"\\N", b'""', b'"""', b"''", b'"\\"', b"\n\r\t",
              b"\x00\x00\x00", b"\xff\xfe\xfd", b"a\x00b", b'\\"\\"', b"\\\n", b"\\\r\n", b"\r\\n"]
    out, seen = [], set()
    for c in cores:
        if c not in seen:
            seen.add(c)
            out.append(c)
    return out


def weighted_random_bytes(rng, n):
    specials = b'\\\\\\\\""\'??\n\r\t\x00\x01\x7f\x80\xff0178=(/)<!>-'
    out = bytearray()
    while len(out) < n:
        x = rng.random()
        if x < 0.35:
            out.append(rng.choice(specials))
        elif x < 0.45:
            out += b"\\" * rng.randint(1, 7)
        elif x < 0.50:
            out += b"?" * rng.randint(2, 4) + bytes([rng.choice(TRI3)])
        elif x < 0.60:
            out.append(rng.randrange(256))
        else:
            out += rng.choice((b"a", b"z", b"A", b"F", b"x", b"n", b" ", b"9")) * rng.randint(1, 3)
    return bytes(out[:n])


# ---------------------------------------------------------------------------
# the child: runs the real code of the snapshot on every job

CHILD = r'''
import json, signal, sys
from Cython.Compiler import StringEncoding as SE, Code
assert SE.__file__.endswith(".py"), SE.__file__
assert Code.__file__.endswith(".py"), Code.__file__

class Hang(Exception):
    pass
def on_alarm(*a):
    raise Hang("call did not return within 10 s")
signal.signal(signal.SIGALRM, on_alarm)

def writer():
    w = Code.CCodeWriter()
    w.code_config = Code.CCodeConfig(emit_linenums=False)
    return w

def run(job):
    form = job["form"]
    if form == "ustr":
        return SE.EncodedString(job["ustr"]).as_c_string_literal()
    if form == "numtab":
        # Code.py, generate_num_constants: the C string of large integer constants
        c_string = b'\\000'.join([d.encode("ascii") for d in job["digits"]]).decode('ascii')
        return '"%s"' % SE.split_string_literal(c_string)
    b = bytes.fromhex(job["hex"])
    if form == "lit":
        return SE.bytes_literal(b, "utf8").as_c_string_literal()
    if form == "split":
        return '"%s"' % SE.split_string_literal(SE.escape_byte_string(b), job["limit"])
    if form == "const":        # the module string table (GlobalState.generate_pystring_constants)
        w = writer()
        Code._write_escaped_cstring_const(w, b, "nm")
        return w.getvalue()
    if form == "cconst":       # plain C string constants (StringConst + generate_string_constants)
        w = writer()
        escaped = Code.StringConst("nm", None, b).escaped_value
        Code._write_cstring_const(w, escaped, "nm", len(escaped))
        return w.getvalue()
    if form == "arrforce":     # the character-array branch of _write_cstring_const, entered by passing the
        w = writer()           # threshold length for a short string (the branch itself does not look at it)
        Code._write_cstring_const(w, SE.escape_byte_string(b), "nm", 65536)
        return w.getvalue()
    if form == "char":
        return "'%s'" % SE.escape_char(b)
    raise ValueError(form)

out = open(sys.argv[2], "w")
with open(sys.argv[1]) as f:
    for line in f:
        job = json.loads(line)
        signal.alarm(10)
        try:
            text = run(job)
            rec = {"id": job["id"], "out": text}
        except BaseException as e:
            rec = {"id": job["id"], "error": type(e).__name__ + ": " + str(e)[:200]}
        finally:
            signal.alarm(0)
        out.write(json.dumps(rec) + "\n")
out.close()
'''

_PFX = r"static const char nm\[\] = "
_RE_ONE = re.compile(r"\A" + _PFX + r"(.*);\n\Z", re.S)
_RE_TWO = re.compile(r"\A#ifdef _MSC_VER\n" + _PFX + r"(\{.*\});\n#else\n" + _PFX + r"(.*);\n#endif\n\Z", re.S)


def parse_const(out):
    """Emitted declaration(s) -> list of (kind, initialiser text) or None."""
    m = _RE_TWO.match(out)
    if m:
        return [("arr", m.group(1)), ("str", m.group(2))]
    m = _RE_ONE.match(out)
    if m and not out.startswith("#"):
        return [("str", m.group(1))]
    return None


def ords(text):
    """Source text -> character codes for the spec (anything above 255 becomes 256)."""
    return [min(ord(c), 256) for c in text]


# ---------------------------------------------------------------------------
# oracle: gcc reads the same text

_GCC = ["gcc", "-std=c11", "-trigraphs", "-pedantic-errors", "-Wno-overlength-strings", "-O0"]

_HEAD = ("#include <stdio.h>\n"
         "static void d(int id, const char *p, unsigned long n) {\n"
         "  unsigned long i; printf(\"%d\", id);\n"
         "  for (i = 0; i < n; i++) printf(\" %d\", (unsigned char)p[i]);\n"
         "  printf(\"\\n\"); }\n"
         "int main(void) {\n")


def _c_source(items, line_marks=False):
    parts = [_HEAD]
    for i, (key, kind, text) in enumerate(items):
        if line_marks:
            parts.append("#line %d\n" % ((i + 1) * 1000))
        if kind == "str":
            parts.append("{ static const char s[] =\n%s\n; d(%d, s, sizeof(s) - 1); }\n" % (text, i))
        elif kind == "arr":
            parts.append("{ static const char s[] =\n%s\n; d(%d, s, sizeof(s)); }\n" % (text, i))
        else:
            parts.append("{ char c =\n%s\n; d(%d, &c, 1); }\n" % (text, i))
    parts.append("return 0; }\n")
    return "".join(parts)


def _compile_run(items, wd, tag):
    src = os.path.join(wd, tag + ".c")
    exe = os.path.join(wd, tag + ".bin")
    with open(src, "wb") as f:
        f.write(_c_source(items).encode("latin1"))
    p = subprocess.run(_GCC + ["-o", exe, src], capture_output=True, text=True, errors="replace", timeout=600)
    if p.returncode != 0:
        return None, p.stderr
    q = subprocess.run([exe], capture_output=True, text=True, timeout=120)
    if q.returncode != 0:
        raise RuntimeError("oracle program failed: rc=%s" % q.returncode)
    res = {}
    for line in q.stdout.splitlines():
        f = line.split()
        res[int(f[0])] = [int(x) for x in f[1:]]
    if len(res) != len(items):
        raise RuntimeError("oracle program printed %d of %d literals" % (len(res), len(items)))
    return res, ""


def _read_batch(items, wd, tag, out, counter):
    """Bisecting batch compile: gcc's value for every text, or ('rejected', first error line)."""
    counter[0] += 1
    res, err = _compile_run(items, wd, "%s_%d" % (tag, counter[0]))
    if res is not None:
        for i, (key, kind, text) in enumerate(items):
            out[key] = res[i]
        return
    if len(items) == 1:
        msg = [l for l in err.splitlines() if "error" in l]
        out[items[0][0]] = ("rejected", (msg[0] if msg else err[:200])[-200:])
        return
    h = len(items) // 2
    _read_batch(items[:h], wd, tag, out, counter)
    _read_batch(items[h:], wd, tag, out, counter)


def _syntax_ok(item, wd, tag):
    """Front-end only (no code generation, no link): does gcc accept this one text?"""
    src = os.path.join(wd, tag + ".c")
    with open(src, "wb") as f:
        f.write(_c_source([item]).encode("latin1"))
    p = subprocess.run(_GCC + ["-fsyntax-only", src], capture_output=True, text=True, errors="replace", timeout=120)
    os.unlink(src)
    if p.returncode == 0:
        return None
    msg = [l for l in p.stderr.splitlines() if "error" in l]
    return (msg[0] if msg else p.stderr[:200])[-200:]


def gcc_read(items, wd, batch=400, jobs=8):
    """items: [(key, kind, text[, risky])] -> {key: [bytes] | ('rejected', msg) | None (not expressible)}.
    Texts flagged risky (they may well be malformed) are first checked one by one with
    -fsyntax-only; everything gcc accepts is then compiled in batches and run."""
    out = {}
    os.makedirs(wd, exist_ok=True)
    plain, risky = [], []
    for it in items:
        key, kind, text = it[0], it[1], it[2]
        if any(ord(c) > 255 for c in text):
            out[key] = None
        elif len(it) > 3 and it[3]:
            risky.append((key, kind, text))
        else:
            plain.append((key, kind, text))
    # one front-end pass over all risky texts blames the lines with errors (#line marks map
    # them to texts); only the blamed texts are then checked on their own
    blamed = set()
    for lo in range(0, len(risky), 1000):
        part = risky[lo:lo + 1000]
        src = os.path.join(wd, "blame%d.c" % lo)
        with open(src, "wb") as f:
            f.write(_c_source(part, line_marks=True).encode("latin1"))
        p = subprocess.run(_GCC + ["-fsyntax-only", "-fmax-errors=0", src], capture_output=True, text=True,
                           errors="replace", timeout=600)
        if p.returncode != 0:
            hit = False
            for m in re.finditer(r"^[^:\n]+:(\d+):\d+: (?:fatal )?error", p.stderr, re.M):
                ix = int(m.group(1)) // 1000 - 1
                if 0 <= ix < len(part):
                    blamed.add(lo + ix)
                    hit = True
            if not hit:
                blamed.update(range(lo, lo + len(part)))
    order = sorted(blamed)
    with concurrent.futures.ThreadPoolExecutor(max_workers=jobs) as ex:
        verdicts = list(ex.map(lambda ix: _syntax_ok(risky[ix], wd, "s%d" % ix), order))
    rejected = {ix: msg for ix, msg in zip(order, verdicts) if msg is not None}
    for ix, it in enumerate(risky):
        if ix in rejected:
            out[it[0]] = ("rejected", rejected[ix])
        else:
            plain.append(it)
    batches, cur, cur_size = [], [], 0
    for it in plain:
        cur.append(it)
        cur_size += len(it[2])
        if len(cur) >= batch or cur_size > 400000:
            batches.append(cur)
            cur, cur_size = [], 0
    if cur:
        batches.append(cur)

    def work(ix):
        local = {}
        _read_batch(batches[ix], wd, "b%d" % ix, local, [0])
        return local

    with concurrent.futures.ThreadPoolExecutor(max_workers=jobs) as ex:
        for local in ex.map(work, range(len(batches))):
            out.update(local)
    return out


# ---------------------------------------------------------------------------
# literal texts that the compiler never writes: they keep every reading rule of
# the spec alive (trigraphs, splices, hex escapes, malformed texts) and are
# judged by gcc, not by hand

HAND_TEXTS = [
    ("str", '"abc"'), ("str", '""'), ("str", '"" ""'), ("str", '"a" "b"\n\t"c"'),
    ("str", '"\\x41" "1"'), ("str", '"\\x41""1"'), ("str", '"\\x411"'), ("str", '"\\x4g"'), ("str", '"\\xfF"'),
    ("str", '"\\x"'), ("str", '"\\x" "41"'), ("str", '"\\xg"'), ("str", '"\\x00000041"'), ("str", '"\\x100"'),
    ("str", '"\\1" "1"'), ("str", '"\\11" "1"'), ("str", '"\\1111"'), ("str", '"\\18"'), ("str", '"\\8"'),
    ("str", '"\\377"'), ("str", '"\\400"'), ("str", '"\\777"'), ("str", '"\\0"'), ("str", '"\\00"'), ("str", '"\\0000"'),
    ("str", '"??/n??="'), ("str", '"??(??)??\'??<??!??>??-"'), ("str", '"???=?"'), ("str", '"????/"'), ("str", '"??/""'),
    ("str", '"??/??/"'), ("str", '"?\\?="'), ("str", '"?" "?="'), ("str", '"??""="'), ("str", '"??/\n"'),
    ("str", '"a\\\nb"'), ("str", '"a??/\nb"'), ("str", '"\\1\\\n2"'), ("str", '"\\x4\\\n1"'), ("str", '"\\\\\n"'),
    ("str", '"\\\n\\\nab"'), ("str", '"?\\\n?="'), ("str", '"a"\\\n"b"'), ("str", '"\\\\\\\n"'),
    ("str", '"\\a\\b\\f\\r\\v\\?\\\'\\"\\\\\\t\\n"'), ("str", '"\\q"'), ("str", '"\\e"'), ("str", '"\\N"'), ("str", '"\\ "'),
    ("str", '"abc'), ("str", 'abc"'), ("str", '"a\nb"'), ("str", '"a" x "b"'), ("str", '"a" , "b"'), ("str", '"a\\"'),
    ("str", '"\'"'), ("str", '"\\\'"'), ("str", '"a\tb"'), ("str", '"$@`~^|[]{}#"'), ("str", ' "a" '), ("str", ''),
    ("chr", "'a'"), ("chr", "'\\xFF'"), ("chr", "'\\x7F'"), ("chr", "'\\''"), ("chr", "'\"'"), ("chr", "'\\\"'"),
    ("chr", "'?'"), ("chr", "'\\?'"), ("chr", "'\\\\'"), ("chr", "'\\n'"), ("chr", "'\\0'"), ("chr", "'\\377'"),
    ("chr", "''"), ("chr", "'''"), ("chr", "'a"), ("chr", "'\\'"), ("chr", "'??/''"), ("chr", "'??''"), ("chr", " 'a' "),
    ("arr", "{'a','\\047', '\\\\','?'}"), ("arr", "??<'a',??>"), ("arr", "{'a' 'b'}"), ("arr", "{'a',}"),
    ("arr", "{'a'"), ("arr", "'a'}"), ("arr", "{'\\\"','\"','\\''}"), ("arr", "{ 'x' ,\n 'y' }"), ("arr", "{'a','b'}}"),
]


def random_texts(rng, n):
    """Random literal texts built from tokens; gcc decides what they mean."""
    toks = ["a", "z", "1", "7", "8", "9", "f", "F", "x", "n", "?", "??", "=", "/", "(", "'", " ", "!", "-", "<", ">", ")",
            "\\\\", '\\"', "\\'", "\\n", "\\t", "\\?", "\\a", "\\0", "\\1", "\\12", "\\101", "\\377", "\\7", "\\x4", "\\x41",
            "\\xa", "\\xFf", "\\x0", '""', '" "', '"\n"', "\\\n", "??/", "??=", "??'", "??/\n", "??)", "??!", "??-"]
    bad = ["\\400", "\\x", "\\q", "\n", '"', "\\x100", "\\8", "\\"]
    out = []
    for i in range(n):
        k = rng.randint(1, 7)
        parts = [rng.choice(toks) for _ in range(k)]
        solo = False
        if rng.random() < 0.12:
            parts.insert(rng.randrange(len(parts) + 1), rng.choice(bad))
        out.append(("str", '"' + "".join(parts) + '"', True))   # any of them may turn out malformed: compile alone
    for i in range(n // 4):
        k = rng.randint(1, 5)
        elts = []
        for _ in range(k):
            elts.append("'" + rng.choice(["a", '"', "\\'", "\\\\", "?", "\\?", "\\047", "\\x27", "\\0", "\\n", "??/n", "??/\n7", " "]) + "'")
        out.append(("arr", "{" + rng.choice([",", ", ", ",\n"]).join(elts) + "}", True))
    return out
