"""C23 helpers: render the body templates published by spec/Generator.tla as Python
source, and the child-process driver that replays operation histories on fresh
generator / coroutine objects (plain CPython = P, compiled module = C)."""
import json
import os

import core

NONE = -1
OPNAMES = {1: "next", 2: "send_none", 3: "send_non_none", 4: "throw_ValueError", 5: "throw_KeyError",
           6: "throw_GeneratorExit", 7: "close"}


def pyval(v):
    return "None" if v == NONE else str(v)


def render_stmt(s, ind, ctx):
    """ctx: {'coro': bool, 'aw': name of the awaitable constructor, 'subs': [...]}"""
    p = "    " * ind
    t = s["t"]

    def yexpr(val):
        return ("await %s(%s)" % (ctx["aw"], val)) if ctx["coro"] else ("yield %s" % val)
    if t == "yield":
        return [p + yexpr(pyval(s["v"]))]
    if t == "recv":
        return [p + "x = " + yexpr(pyval(s["v"]))]
    if t == "yieldx":
        return [p + "x = " + yexpr("x")]
    if t == "log":
        return [p + "L.append(%d)" % s["k"]]
    if t == "logx":
        return [p + "L.append(x)"]
    if t == "ret":
        return [p + "return %s" % pyval(s["v"])]
    if t == "retx":
        return [p + "return x"]
    if t == "raise":
        return [p + "raise %s" % s["e"]]
    if t == "loghexc":
        return [p + "L.append(_hx())"]
    if t == "reraise":
        return [p + "raise"]
    if t == "seq":
        out = []
        for c in s["ss"]:
            out += render_stmt(c, ind, ctx)
        return out or [p + "pass"]
    if t == "loop":
        return [p + "for _ in range(%d):" % s["n"]] + render_stmt(s["b"], ind + 1, ctx)
    if t == "tryfin":
        return [p + "try:"] + render_stmt(s["b"], ind + 1, ctx) + [p + "finally:"] + render_stmt(s["f"], ind + 1, ctx)
    if t == "tryexc":
        return [p + "try:"] + render_stmt(s["b"], ind + 1, ctx) + [p + "except %s:" % s["e"]] + render_stmt(s["h"], ind + 1, ctx)
    if t == "yf":
        sub = ctx["subs"][s["g"] - 1]
        callee = ("gs_%s" % sub["name"]) if sub["kind"] == "c" else ("PLAIN['%s']" % sub["name"])
        return [p + "x = yield from %s(L)" % callee]
    if t == "yi":
        vals = "[%s]" % ", ".join(str(i) for i in range(1, s["n"] + 1))
        src = ("iter(%s)" % vals) if s["k"] == "list" else ("NextOnly(%d)" % s["n"])
        return [p + "x = yield from %s" % src]
    if t == "reenter":
        resume = "L.g.send(None)" if ctx["coro"] else "next(L.g)"
        return [p + "try:", p + "    " + resume, p + "except ValueError:", p + "    L.append(%d)" % s["k"]]
    raise ValueError("unknown statement %r" % (s,))


def render_func(fname, body, ctx):
    head = ("async def %s(L):" if ctx["coro"] else "def %s(L):") % fname
    return [head, "    x = None"] + render_stmt(body, 1, ctx) + [""]


_AW = '''class %s:
    def __init__(self, v):
        self.v = v
    def __await__(self):
        return (yield self.v)
'''


_NEXTONLY = '''class NextOnly:
    """an iterator WITHOUT send/throw/close"""
    def __init__(self, n):
        self.i = 0
        self.n = n
    def __iter__(self):
        return self
    def __next__(self):
        if self.i >= self.n:
            raise StopIteration
        self.i += 1
        return self.i
'''


def render(pub):
    """pub: the record published by the spec {templates, subs, subbodies, ops}.
    Returns (module source [compiled / exec'd], plain-helper source [always plain Python])."""
    subs = pub["subs"]
    mod = ["# cython: language_level=3", "import sys", "PLAIN = {}", "_HX = %r" % {(None if k == "None" else k): v for k, v in pub["ecodes"].items()},
           "def _hx():", "    t = sys.exc_info()[0]", "    return _HX.get(None if t is None else t.__name__, 909)", "", _NEXTONLY, _AW % "AwC"]
    plain = [_AW % "AwP", "PLAIN_DEFS = {'AwP': AwP}", ""]
    for sub in subs:
        body = pub["subbodies"][sub["b"] - 1]
        ctx = {"coro": False, "aw": None, "subs": subs}
        if sub["kind"] == "c":
            mod += render_func("gs_" + sub["name"], body, ctx)
        else:
            # plain inner generators only delegate to compiled ones through the module's namespace: not used
            plain += render_func("ps_" + sub["name"], body, ctx)
            plain.append("PLAIN_DEFS['%s'] = ps_%s" % (sub["name"], sub["name"]))
    for tpl in pub["templates"]:
        coro = tpl["kind"] == "coro"
        ctx = {"coro": coro, "aw": None, "subs": subs}
        if coro:
            ctx["aw"] = "AwC" if tpl["aw"] == "c" else "PLAIN['AwP']"
        mod += render_func("g_" + tpl["name"], tpl["b"], ctx)
    return "\n".join(mod) + "\n", "\n".join(plain) + "\n"


# --------------------------------------------------------------------------------------------
# child driver.  argv: mode(P|C) moddir source_path plain_path cases_file out_file start
DRIVER = r'''
import sys, json, gc, os, types, weakref, warnings, importlib
mode, moddir, srcpath, plainpath, casesfile, outfile, start = sys.argv[1:8]
start = int(start)
warnings.simplefilter("ignore")
sys.unraisablehook = lambda *a: None
ns = {}
exec(compile(open(plainpath).read(), plainpath, "exec"), ns)
if mode == "C":
    sys.path.insert(0, moddir)
    mod = importlib.import_module("c23mod")
    if not mod.__file__.endswith(".so"):
        print("@@" + json.dumps({"fatal": "not an extension module: %s" % mod.__file__})); sys.exit(3)
else:
    mod = types.ModuleType("c23mod_plain")
    exec(compile(open(srcpath).read(), srcpath, "exec"), mod.__dict__)
mod.PLAIN.update(ns["PLAIN_DEFS"])

class Ctx(list):
    g = None

with open(casesfile) as f:
    meta = json.loads(f.readline())
    cases = [json.loads(line) for line in f]
names = meta["names"]; kinds = meta["kinds"]
funcs = [getattr(mod, "g_" + n) for n in names]
probe = funcs[0](Ctx())
native = isinstance(probe, (types.GeneratorType, types.CoroutineType))
if (mode == "C") == native:
    print("@@" + json.dumps({"fatal": "mode %s but object type is %s" % (mode, type(probe).__name__)})); sys.exit(3)
probe.close(); del probe

def run(fn, coro, hist):
    L = Ctx()
    g = fn(L)
    L.g = g
    obs = []
    for op in hist:
        try:
            if op == 1:
                v = g.send(None) if coro else next(g)
            elif op == 2:
                v = g.send(None)
            elif op == 3:
                v = g.send(7)
            elif op == 4:
                v = g.throw(ValueError)
            elif op == 5:
                v = g.throw(KeyError)
            elif op == 6:
                v = g.throw(GeneratorExit)
            elif op == 7:
                r = g.close()
                obs.append(["closed"] if r is None else ["closed", repr(r)])
                continue
            else:
                raise SystemError(op)
            obs.append(["y", v])
        except StopIteration as e:
            obs.append(["stop", e.value])
        except BaseException as e:
            obs.append(["exc", type(e).__name__])
    log1 = list(L)
    L.g = None
    w = weakref.ref(g)
    del g
    if w() is not None:
        gc.collect()
    log2 = list(L)
    if w() is not None:
        log2.append("leaked")
    return [obs, log1, log2]

fd = os.open(outfile, os.O_WRONLY | os.O_CREAT | os.O_APPEND, 0o644)
n = 0
for b, hist in cases[start:]:
    r = run(funcs[b - 1], kinds[b - 1] == "coro", hist)
    os.write(fd, (json.dumps(r, separators=(",", ":")) + "\n").encode())
    n += 1
os.close(fd)
print("@@" + json.dumps({"done": n}))
'''


def spec_expect(case):
    """The spec's expectation of one published case in the driver's output format."""
    def val(v):
        return None if v == NONE else v
    obs = []
    for k, v, e in case["o"]:
        if k == "y":
            obs.append(["y", val(v)])
        elif k == "stop":
            obs.append(["stop", val(v)])
        elif k == "exc":
            obs.append(["exc", e])
        elif k == "closed":
            obs.append(["closed"])
        else:
            raise ValueError(k)
    return [obs, [val(v) for v in case["l"]], [val(v) for v in case["d"]]]


def finished_answers(coro, hist):
    """what a FINISHED object answers (used only to classify wrong observations)"""
    out = []
    for op in hist:
        if op in (1, 2, 3):
            out.append(["exc", "RuntimeError"] if coro else ["stop", None])
        elif op in (4, 5, 6):
            out.append(["exc", "RuntimeError"] if coro else ["exc", {4: "ValueError", 5: "KeyError", 6: "GeneratorExit"}[op]])
        else:
            out.append(["closed"])
    return out


def replay(mode, moddir, srcpath, plainpath, names, kinds, cases, tag, timeout=1500):
    """Run all cases ([body index, hist]) in child processes; a child that dies is restarted
    after the fatal case.  Returns a list with one entry per case: [obs, log, dlog] or
    ["CRASH", detail]."""
    wd = core.subdir("c23")
    cf = os.path.join(wd, "%s.cases" % tag)
    with open(cf, "w") as f:
        f.write(json.dumps({"names": names, "kinds": kinds}) + "\n")
        for c in cases:
            f.write(json.dumps(c, separators=(",", ":")) + "\n")
    drv = os.path.join(wd, "driver.py")
    with open(drv, "w") as f:
        f.write(DRIVER)
    results = []
    restarts = 0
    while len(results) < len(cases):
        of = os.path.join(wd, "%s.%d.out" % (tag, restarts))
        if os.path.exists(of):
            os.unlink(of)
        ch = core.run_child(drv, [mode, moddir, srcpath, plainpath, cf, of, str(len(results))],
                            timeout=timeout, mem_mb=8192)
        got = []
        if os.path.exists(of):
            with open(of) as f:
                for line in f:
                    if line.endswith("\n"):
                        try:
                            got.append(json.loads(line))
                        except ValueError:
                            break
        fatal = [j for j in ch.json_lines() if "fatal" in j]
        if fatal:
            core.die("C23 driver (%s): %s" % (mode, fatal[0]["fatal"]))
        results += got
        if len(results) >= len(cases):
            break
        # the child died (or hung) in the next case
        if ch.rc == 0:
            core.die("C23 driver (%s) ended early without an error: %s" % (mode, ch.err[-2000:]))
        if mode == "P" or (not ch.crashed and not ch.timed_out and not got and restarts == 0 and "Traceback" in ch.err):
            core.die("C23 driver (%s) failed: rc=%s %s" % (mode, ch.rc, ch.err[-3000:]))
        results.append(["CRASH", {"rc": ch.rc, "signal": ch.signal, "timed_out": ch.timed_out, "stderr": ch.err[-1500:]}])
        restarts += 1
        if restarts > 25:
            while len(results) < len(cases):
                results.append(["CRASH", {"not_run": True}])
    return results
